#!/usr/bin/env python3
"""Writes MANIFEST.json from lib/props.py and the descriptions below."""
import json, os, sys
ROOT = os.path.dirname(os.path.dirname(os.path.abspath(__file__)))
sys.path.insert(0, os.path.join(ROOT, "lib"))
import props as PR

ALL = ["C%02d" % i for i in range(1, 21)]
TEXT = PR.TEXT if hasattr(PR, "TEXT") else {}
NA = PR.NOT_APPLICABLE if hasattr(PR, "NOT_APPLICABLE") else {}

checks = []
for pid in ALL:
    if pid not in PR.PROPS:
        continue
    sp = PR.PROPS[pid]
    t = TEXT.get(pid, {})
    checks.append({
        "property_id": pid,
        "quick_cmd": "./check %s --tier quick" % pid,
        "thorough_cmd": "./check %s --tier thorough" % pid,
        "evidence_file": "/verif/evidence/%s.json" % pid,
        "replay_cmd_template": "./check %s --replay {path}" % pid,
        "engine": "tla-trace",
        "level_claimed": {
            "category": sp.get("level", "model_checking"),
            "text": t.get("text", "TLC model-checks the property's TLA+ formulas exhaustively on bounded configurations of the specification; TLC-generated behaviours are executed on the real keepers through ABCI and the same formulas are evaluated by TLC on every recorded real state, with step-by-step conformance of the code to the specification."),
            "design_ref": t.get("design_ref", "DESIGN.md section 5 (%s)" % pid),
        },
        "level_note": t.get("note", "Trusted: TLC, the Go toolchain, cosmos-sdk baseapp/IAVL/x-bank, the harness projector and concretiser. Bounded: small constants for the exhaustive runs, sampled behaviours for the code."),
        "technique": t.get("technique", "TLA+ specification + TLC model checking + TLC trace validation of real-code traces"),
    })

na = [{"property_id": p, "reason": NA.get(p, "check not built yet in this round; no claim is made")} for p in ALL if p not in PR.PROPS]
goenv = "GOFLAGS=-mod=mod GOPROXY=off GOSUMDB=off GOTOOLCHAIN=local"
man = {
    "version": 1,
    "setup_cmd": "cd /verif/harness && %s go build -buildvcs=false -tags verif -o bin/harness . && cd /verif && python3 lib/gen_traceprops.py" % goenv,
    "hooks": {
        "guard": "verif",
        "enable": "go build -tags verif (harness module /verif/harness with replace directives onto /repo/{api,types,x/data,x/ecocredit,x/intertx})",
        "baseline_off_cmd": "for m in . api types x/data x/ecocredit x/intertx; do (cd /repo/$m && GOFLAGS=-mod=mod go test -json -vet=off -count=1 -timeout 25m ./...); done",
        "source_commits": PR.HOOK_COMMITS if hasattr(PR, "HOOK_COMMITS") else [],
        "add_only": True,
    },
    "engines": [{
        "name": "tla-trace",
        "path": "/verif/check",
        "serves_properties": [c["property_id"] for c in checks],
        "kind_free_text": "explicit TLA+ specification (spec/*.tla) checked by TLC; Go harness over the real keepers (harness/); TLC trace validation (spec/Trace*.tla)",
    }],
    "checks": checks,
    "not_applicable": na,
    "notes": "See DESIGN.md. ./check <id> exits 0 (held), 1 (VIOLATION line) or 2 (inconclusive: tool failure, timeout, unreproduced failure).",
}
json.dump(man, open(os.path.join(ROOT, "MANIFEST.json"), "w"), indent=1)
print("wrote MANIFEST.json with", len(checks), "checks,", len(na), "not applicable")
