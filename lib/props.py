"""Per-property wiring: which bounded configurations are model-checked, which
formulas are the property's own (layer A), and how behaviours are generated.

For the ecocredit family every entry names
  mc      : list of (cfg, timeout_s) exhaustive configurations (quick tier)
  mc_thorough : same for the thorough tier
  inv     : state predicates of Props.tla (INVARIANTS in MC and on traces)
  step    : names X such that X_Step is a step clause (X_Prop in MC, T_X on traces)
  tinv    : trace-only state predicates (observations)
  gen     : list of (cfg, behaviours, depth) to simulate for the quick tier
"""

ECO_GEN_Q = [("credits_q", 40, 20), ("market_q", 60, 25)]
ECO_GEN_T = [("credits_q", 300, 30), ("market_q", 500, 30)]

PROFILES = [
    {"unit": "1000000", "render": 0},   # whole credits, plain decimals
    {"unit": "250000", "render": 1},    # quarter credits, mixed renderings
    {"unit": "1", "render": 0},         # smallest unit (10^-6)
    {"unit": "500000", "render": 1},
]

PROPS = {
    "C01": dict(
        family="eco",
        mc=[("credits_q", 120), ("market_q", 300)],
        inv=["C01_Conservation", "C01_NoOrphans", "C01_NonNegative"],
        step=[],
        tinv=["T_C01_WellFormed", "T_C01_ChainInvariantAgrees"],
    ),
    "C02": dict(
        family="eco",
        mc=[("credits_q", 120), ("market_q", 300)],
        inv=["C02_Accounting"],
        step=["C02_OnlyIssuers", "C02_SealedFrozen"],
        tinv=[],
    ),
    "C04": dict(
        family="eco",
        mc=[("credits_q", 120), ("market_q", 300)],
        inv=[],
        step=["C04_Permanence"],
        tinv=[],
    ),
}

HOOK_COMMITS = ["65ff9943f"]

NOT_APPLICABLE = {
    "C19": "numeric accuracy of pure decimal functions over 34-digit coefficients: TLC integers are 32-bit and there is no state machine to specify (DESIGN.md 5, C19)",
}
