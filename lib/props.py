"""Per-property wiring: which bounded configurations are model-checked, which
formulas are the property's own (layer A), and how behaviours are generated.

For the ecocredit family every entry names
  mc      : list of (cfg, timeout_s) exhaustive configurations (quick tier)
  mc_thorough : same for the thorough tier
  inv     : state predicates of Props.tla (INVARIANTS in MC and on traces)
  step    : names X such that X_Step is a step clause (X_Prop in MC, T_X on traces)
  tinv    : trace-only state predicates (observations)
  gen     : list of (cfg, behaviours, depth) to simulate for the quick tier
"""

ECO_GEN_Q = [("credits_g", 32, 20), ("market_g", 56, 25), ("expiry_g", 32, 20), ("basket_g", 32, 25), ("basket2_g", 16, 20), ("basket3_g", 16, 20), ("roles_g", 24, 20), ("bridge_g", 32, 20), ("params_g", 32, 20), ("sellerfee_g", 12, 15), ("buyerfee_g", 12, 15), ("wide_g", 24, 25)]
ECO_GEN_T = [("credits_g", 300, 30), ("market_g", 500, 30), ("expiry_g", 300, 25), ("basket_g", 300, 30), ("basket2_g", 150, 25), ("basket3_g", 150, 25), ("roles_g", 200, 25), ("bridge_g", 300, 25), ("params_g", 300, 25), ("sellerfee_g", 100, 20), ("buyerfee_g", 100, 20), ("wide_g", 250, 30)]

# generation configurations without baskets: half of their behaviours run with block times and sell
# order expirations that are not aligned to whole seconds (harness/names.go: MarketTime)
FINE_CFGS = {"market_g", "expiry_g", "sellerfee_g", "buyerfee_g"}

PROFILES = [
    {"unit": "1000000", "render": 0},   # whole credits, plain decimals
    {"unit": "250000", "render": 1},    # quarter credits, mixed renderings
    {"unit": "1", "render": 0},         # smallest unit (10^-6)
    {"unit": "500000", "render": 1},
]

PROPS = {
    "C01": dict(
        family="eco", edge_q=["market2_e", "credits2_e"], edge=["credits_q", "market_e", "basket_e", "market2_e", "credits2_e"],
        mc=[("credits_q", 120), ("market_q", 300)], mc_t=[("credits_t", 600), ("market_t", 1800)],
        inv=["C01_Conservation", "C01_NoOrphans", "C01_NonNegative"],
        step=[],
        tinv=["T_C01_WellFormed", "T_C01_ChainInvariantAgrees"],
    ),
    "C02": dict(
        family="eco", edge_q=["market2_e"], edge=["credits_q", "market_e", "market2_e"],
        mc=[("credits_q", 120), ("market_q", 300)], mc_t=[("credits_t", 600), ("market_t", 1800)],
        inv=["C02_Accounting"],
        step=["C02_OnlyIssuers", "C02_SealedFrozen"],
        tinv=[],
    ),
    "C03": dict(
        family="eco", edge_q=["market2_e", "credits2_e"], edge=["credits_q", "market_e", "basket_e", "market2_e", "credits2_e"],
        mc=[("credits_q", 120), ("market_q", 300)], mc_t=[("credits_t", 600), ("market_t", 1800)],
        inv=[],
        step=["C03_Credits", "C03_Coins", "C03_Block", "C03_PaidInAskDenom", "C03_AskAsRequested"],
        tinv=[],
    ),
    "C05": dict(
        family="eco", edge_q=["credits2_e", "basket_e"], edge=["basket_e", "credits2_e"],
        mc=[("basket_q", 600)], mc_t=[("basket_t", 1500)],
        inv=["C05_Backed"],
        step=["C05_PutMints", "C05_TakeBurns", "C05_OnlyPutTake"],
        tinv=["T_C05_ChainInvariantAgrees"],
    ),
    "C06": dict(
        family="eco", edge_q=["market2_e", "market_e"], edge=["market_e", "market2_e"],
        mc=[("market_q", 300)], mc_t=[("market_t", 1800)],
        inv=["C06_Escrow", "C06_OrderWellFormed"],
        step=["C06_DenomAllowedAtWrite"],
        tinv=["T_C06_OrderQuantitiesWellFormed"],
    ),
    "C07": dict(
        family="eco", edge_q=["market2_e", "params_e"], edge=["market_e", "params_e", "market2_e"],
        mc=[("market_q", 300)], mc_t=[("market_t", 1800), ("params_t", 900)],
        inv=[],
        step=["C07_Orders", "C07_Credits", "C07_Coins", "C07_NoOtherCoins", "C03_AskAsRequested"],
        tinv=[],
    ),
    "C11": dict(
        family="eco", edge_q=["credits2_e", "basket_e"], edge=["basket_e", "credits2_e"],
        mc=[("basket_q", 600)], mc_t=[("basket_t", 1500)],
        inv=[],
        step=["C11_PutOnlyIf", "C11_PutIf", "C11_OldestFirst", "C11_AutoRetire", "C11_CriteriaAsSet"],
        tinv=[],
    ),
    "C12": dict(
        family="eco", edge_q=["market_e"], edge=["market_e", "market2_e"],
        mc=[("market_q", 300)], mc_t=[("market_t", 1800)],
        inv=["C12_NoneExpired"],
        step=["C12_Expiry", "C12_NoBuyExpired", "C12_ExpirationAsRequested"],
        tinv=["T_C12_BlockNeverFails"],
    ),
    "C08": dict(
        family="eco",
        parts=[
            dict(family="eco", edge_q=["allow_q"], edge=["roles_q", "allow_q", "market_e"],
                 mc=[("roles_q", 120), ("allow_q", 60), ("market_q", 300)], mc_t=[("roles_t", 600), ("allow_q", 60), ("market_q", 600)],
                 inv=[], step=["C08_Authorised", "C08_Footprint", "C08_SealedStaysSealed", "C08_Effect"], tinv=[]),
            # the data service: resolver manager unless public; only the named resolver changes
            dict(family="data", mc_module="MC_Data", trace_module="TraceData", edge_q=["data_e4"], edge=["data_e4", "data_e5"],
                 mc=[("data_res_q", 300)], mc_t=[("data_res_q", 300)],
                 inv=[], step=["C16_ManagerOnly", "C16_Footprint"], tinv=[],
                 gen=[("data_res_g", 40, 25), ("data_q", 12, 25)], gen_t=[("data_res_g", 400, 30), ("data_q", 100, 30)]),
        ],
    ),
    "C13": dict(
        family="eco", edge_q=["bridge2_e"], edge=["bridge_q", "bridge2_e"],
        mc=[("bridge_q", 200)], mc_t=[("bridge_t", 900)],
        inv=["C13_AtMostOnce", "C13_ContractsUnique"],
        step=["C13_AllowedSource", "C13_BindingPermanent", "C13_ReceiveIntoBound", "C13_BridgeOut", "C13_ChainsAsSet"],
        tinv=[],
    ),
    "C14": dict(
        family="eco",
        parts=[
            dict(family="eco", edge_q=["allow_q"], edge=["roles_q", "allow_q", "credits_q"],
                 mc=[("roles_q", 120), ("allow_q", 60), ("bridge_q", 200), ("credits_q", 120)],
                 mc_t=[("roles_t", 600), ("allow_q", 60), ("bridge_t", 900), ("credits_t", 600)],
                 inv=["C14_Unique", "C14_References", "C14_Format"], step=["C14_Consecutive"], tinv=["T_C14_ParsersAgree"]),
            # "for all strings fed to the format validators/parsers": functional specification IdFormat.tla
            dict(family="idfmt"),
        ],
    ),
    "C18": dict(
        family="eco", edge_q=["zerofee_q", "params_e"], edge=["params_e", "zerofee_q"],
        mc=[("params_q", 300), ("zerofee_q", 60)], mc_t=[("params_t", 900), ("zerofee_q", 60)],
        inv=[],
        step=["C18_FeeExact", "C18_NoFeatureDisabled", "C18_ParamsAsSet", "C11_PutIf"],
        tinv=[],
        tstep=["T_C18_NoAbnormalAbort"],
    ),
    "C09": dict(
        family="eco", mc=[],
        parts=[
            # the modelled validators hold in every reachable state of the bounded models (C09_ValidGenesis);
            # the model is bound to the real validators at every export observation (T_C09_ValidatorModel)
            dict(family="eco", mc=[("credits_q", 120), ("roles_q", 120), ("bridge_q", 200), ("market_q", 300), ("basket_q", 600)],
                 mc_t=[("credits_t", 600), ("roles_t", 600), ("bridge_t", 900), ("market_q", 600), ("basket_t", 1500)],
                 inv=["C09_ValidGenesis"], inv_on_traces=False, step=[], tinv=["T_C09_RoundTrip"], note_inv=["T_C09_ValidatorModel"], tstep=["T_C09_SameState"], observers="export"),
            dict(family="data", mc_module="MC_Data", trace_module="TraceData", mc=[("data_res_q", 300)], mc_t=[("data_res_q", 300)],
                 inv=["C09_DataValidGenesis"], inv_on_traces=False, step=[],
                 tinv=["T_C09_RoundTrip"], note_inv=["T_C09_ValidatorModel"], tstep=["T_C09_SameState"], observers="export",
                 gen=[("data_inj_q", 16, 20), ("data_buckets_q", 8, 20)], gen_t=[("data_inj_q", 100, 25), ("data_buckets_q", 60, 25)]),
        ],
    ),
    "C10": dict(
        family="eco", level="exploration", mc=[],
        parts=[
            dict(family="eco", mc=[], inv=[], step=[], tinv=["T_C10_SameDigests"],
                 tstep=["T_C10_FailedLeavesNoTrace", "T_C10_RestartInvisible"], observers="replica"),
            dict(family="data", mc_module="MC_Data", trace_module="TraceData", mc=[], inv=[], step=[],
                 tinv=["T_C10_SameDigests"], tstep=["T_C10_FailedLeavesNoTrace"], observers="replica",
                 gen=[("data_inj_q", 16, 20), ("data_buckets_q", 8, 20)], gen_t=[("data_inj_q", 100, 25), ("data_buckets_q", 60, 25)]),
        ],
    ),
    "C20": dict(
        family="intertx", mc_module="MC_Intertx", trace_module="TraceIntertx",
        mc=[("intertx_q", 120)], mc_t=[("intertx_t", 600)],
        inv=["C20_OwnPort"], step=["C20_Forward", "C20_SendsWhenPossible"], tinv=["T_C20_NoPanic"],
        gen=[("intertx_g", 120, 30)], gen_t=[("intertx_g", 1200, 40)],
    ),
    "C15": dict(family="iri", mc=[], inv=[], step=[], tinv=[]),
    "C19": dict(family="dec", mc=[], inv=[], step=[], tinv=[]),
    "C16": dict(
        family="data", mc_module="MC_Data", trace_module="TraceData", edge_q=["data_e4"], edge=["data_e4", "data_e5"],
        mc=[("data_q", 300), ("data_buckets_q", 300), ("data_equal_q", 300), ("data_res_q", 300)],
        mc_t=[("data_t", 1500), ("data_buckets_q", 300), ("data_equal_q", 300), ("data_res_q", 300)],
        inv=["C16_IdInjective", "C16_RowsReferToIds"],
        step=["C16_Stable", "C16_FirstTime", "C16_Responses", "C16_ManagerOnly", "C16_Footprint", "C16_Effect"],
        tinv=[],
        gen=[("data_q", 24, 25), ("data_buckets_q", 24, 25), ("data_equal_q", 16, 25), ("data_inj_q", 16, 25), ("data_res_g", 30, 25), ("data_deep_g", 16, 30)],
        gen_t=[("data_q", 200, 30), ("data_buckets_q", 200, 30), ("data_equal_q", 100, 30), ("data_inj_q", 100, 30), ("data_res_g", 300, 30), ("data_deep_g", 150, 35)],
    ),
    "C17": dict(
        family="eco", mc=[], level="exploration",
        parts=[
            dict(family="eco", mc=[], inv=[], step=[], tinv=["T_C17_Lists", "T_C17_Singles"], observers="query"),
            dict(family="data", mc_module="MC_Data", trace_module="TraceData", mc=[], inv=[], step=[],
                 tinv=["T_C17_Lists", "T_C17_Singles"], observers="query",
                 gen=[("data_inj_q", 16, 25), ("data_buckets_q", 8, 25)], gen_t=[("data_inj_q", 120, 30), ("data_buckets_q", 80, 30)]),
        ],
    ),
    "C04": dict(
        family="eco", edge_q=["credits2_e", "market2_e"], edge=["credits_q", "market_e", "basket_e", "credits2_e", "market2_e"],
        mc=[("credits_q", 120), ("market_q", 300)], mc_t=[("credits_t", 600), ("market_t", 1800)],
        inv=[],
        step=["C04_Permanence"],
        tinv=[],
    ),
}

# the large-magnitude part (spec/Big.tla over digit sequences: 10^33 credits next to 10^-6) of the properties whose
# quantifier names "very large values / totals"; C11 gets the oldest-first clause on such amounts
for _p in ("C01", "C02", "C04", "C05", "C11"):
    PROPS[_p] = dict(family="eco", parts=[PROPS[_p], dict(family="big")])
# unbounded amounts at design level: Apalache proves C01 /\ C02 /\ C05 /\ C06 inductive on spec/IndLedger.tla
for _p in ("C01", "C02", "C05"):
    PROPS[_p]["parts"].append(dict(family="ind"))
PROPS["C06"] = dict(family="eco", parts=[PROPS["C06"], dict(family="ind")])

HOOK_COMMITS = ["65ff9943f"]

NOT_APPLICABLE = {}


# ---------------------------------------------------------------- manifest texts
_MC = ("TLC model-checks the property's TLA+ formulas exhaustively on bounded configurations of the explicit specification "
       "(spec/*.tla); TLC-generated behaviours, a code-led random driver and per-step probes are executed on the real keepers "
       "through ABCI, and TLC evaluates the same formulas on every recorded real state and step (trace validation), together with "
       "step-by-step conformance of the code to the specification. ")
_BIG = ("The quantifier's very large values are decided by a second part: spec/Big.tla restates the ledger and the basket over decimal STRINGS computed on digit sequences (Dec.tla), is model-checked to a small depth over a pool from 10^-6 to 10^34 credits, and TLC-generated behaviours over that pool are executed on the real keepers and validated by TLC on the rows as stored (TraceBig.tla), with conformance to Big!Apply. ")
_NOTE = ("Trusted: TLC, the Go toolchain, cosmos-sdk baseapp/IAVL/x-bank, the harness projector and concretiser (harness/*.go). "
         "Bounded: small constants for the exhaustive runs; sampled behaviours (seeded) for the code; in the integer-unit model amounts beyond 2^30 normalised units "
         "are dropped, not judged (C01, C02, C04, C05 judge very large amounts in the digit-sequence model Big.tla instead).")
TEXT = {
    "C01": dict(text=_MC + _BIG + "Conservation is a state invariant over all ledgers, so it is evaluated after every message and block of every executed history, which is the quantifier the property asks for.", technique="TLA+ spec + TLC model checking + TLC trace validation (state invariant over projected ORM/bank state); digit-sequence ledger Big.tla for very large amounts; Apalache inductive invariant over all integer amounts (IndLedger.tla, design level)"),
    "C02": dict(text=_MC + _BIG + "The issued amount is a ghost variable of the specification recomputed by TLC from the logged events, never by the harness.", technique="TLA+ ghost ledger + TLC model checking + trace validation; digit-sequence ledger Big.tla for very large amounts; Apalache inductive invariant over all integer amounts (IndLedger.tla, design level)"),
    "C03": dict(text=_MC + "Ownership safety is a step property over the signer set msg.GetSigners() logged with each real message, with the two exceptions the property states.", technique="TLA+ action property over logged signers + TLC model checking + trace validation"),
    "C04": dict(text=_MC + _BIG + "Monotonicity is an action property checked on every real step, failed messages included.", technique="TLA+ action property + TLC model checking + trace validation; digit-sequence ledger Big.tla for very large amounts"),
    "C05": dict(text=_MC + _BIG + "The real x/bank keeper mints and burns; basket tokens are normalised with the credit unit so that backing is an equation TLC can evaluate.", technique="TLA+ spec of basket + bank + TLC model checking + trace validation; digit-sequence ledger Big.tla for very large amounts; Apalache inductive invariant over all integer amounts (IndLedger.tla, design level)"),
    "C06": dict(text=_MC + "Escrow = open orders is an invariant; 'allowed when written' is an action property against the pre-state allow list.", technique="TLA+ invariant + action property + TLC model checking + trace validation; Apalache inductive invariant over all integer amounts (IndLedger.tla, design level)"),
    "C07": dict(text=_MC + "Settlement is checked with exact rational arithmetic over naturals and the property's own one-unit tolerances, not equality with the specification.", technique="TLA+ action properties with cross-multiplied rational bounds + TLC model checking + trace validation"),
    "C08": dict(text=_MC + "Every gated message is tried by every account in every role assignment of the bounded configurations; footprints are frame conditions on the state record.", technique="TLA+ role predicates and frame conditions + TLC model checking + trace validation (ecocredit and data)"),
    "C09": dict(text=_MC + "The modules' own genesis validators are modelled in TLA+ (Props!GenesisValid: date order, reference resolution, the per-batch supply equation of ValidateGenesis, its emptiness rules; Data!DataGenesisValid) and TLC checks that every reachable state of the bounded models passes them (C09_ValidGenesis; it finds the recorded start=end finding by itself when known_findings.txt is empty). The model is bound to the code at every export observation: the harness exports, validates, imports into an empty chain, re-exports and continues the behaviour on the imported chain after ~30% of the steps and at the end, and TLC checks that the real validator's verdict equals the model's (T_C09_ValidatorModel), the re-export is identical, invariants hold and the abstract state is unchanged. The import/re-export identity itself is observed, not model-checked.", technique="TLA+ model of the genesis validators checked by TLC on all reachable states + TLA+-generated behaviours with ExportImport observation steps validated by TLC"),
    "C10": dict(text="Exploration driven by the specification: TLC-generated histories are executed once with random restarts at block boundaries and re-executed in three fresh applications with other restart schedules; TLC compares the digest sequences (app hash per block; code, data, gas, events per message) and checks that failed messages leave the abstract state and the raw KV content unchanged.", technique="TLA+-generated histories and restart schedules + replica comparison validated by TLC"),
    "C11": dict(text=_MC + "Admission has both directions (only if / if); oldest-first and auto-retire are action properties over the logged response and the basket rows.", technique="TLA+ action properties + TLC model checking over criteria boundaries + trace validation"),
    "C12": dict(text=_MC + "The real Module.BeginBlock runs through ABCI under recover; the post-condition is an action property on every block step.", technique="TLA+ action property on BeginBlock + TLC model checking + trace validation"),
    "C13": dict(text=_MC + "At-most-once is a ghost log of issuing events with origin transactions, kept by the specification.", technique="TLA+ ghost log + action properties + TLC model checking + trace validation"),
    "C14": dict(text=_MC + "Identifiers are real strings that the specification builds with the documented formats, so format, numbering and references are formulas over the projected tables.", technique="TLA+ string-building id model + invariants + TLC model checking + trace validation"),
    "C15": dict(text="A functional TLA+ specification of the hash<->IRI format is model-checked over all pairs of boundary classes; every enumerated content hash and structured mutations of the produced IRIs are executed on the real Validate/ToIRI/ParseIRI and TLC validates the results (round trip, injectivity, accepted IRIs re-encode) and their conformance to the specification.", technique="functional TLA+ spec + TLC over pairs of boundary classes + result validation by TLC", note="base58check is treated as injective; boundary classes, not all 2^32 values."),
    "C16": dict(text=_MC + "The ID hash function is a constant table of the specification injected into the real data server through the one build-tag hook, so collisions are the norm.", technique="TLA+ spec with weak hash tables + TLC model checking + trace validation with injected hasher"),
    "C17": dict(text="Every list query is a TLA+ operator over the specification's state (QExpect); the harness walks the real queries page by page (page sizes 1,2,3,5,100; key- and offset-based; no page request) through the gRPC query router at states of TLC-generated behaviours and TLC compares items, duplicates, totals and single-entity answers. Exploration: no exhaustive model run applies.", technique="TLA+ query operators evaluated by TLC on real states (trace validation)"),
    "C18": dict(text=_MC + "'No accepted parameter disables a feature' is Pre_T => ok checked by TLC in every reachable parameter configuration; counterexamples of the specification are replayed on the code (three defects found and fixed this way).", technique="TLA+ precondition/guard implication + TLC model checking over parameter configurations + counterexample replay + trace validation"),
    "C19": dict(text="A functional TLA+ specification of the decimal arithmetic (Dec.tla) computes on DIGIT SEQUENCES, so 34-digit coefficients, 68-digit exact products and 36-digit quotients are exact although TLC's integers are 32-bit. TLC checks the specification against its built-in integers on all pairs of small decimals (MC_Dec: add, sub, mul, div/mod, compare, truncation, rounding); the real types/math functions (parse, String, Add, Sub, Mul, MulExact, Quo, QuoExact, SafeSubBalance, SdkIntTrim, Cmp) are executed on boundary and seeded random operand strings and TLC validates every result against the specification (syntax accepted, exact value, 34-digit half-up rounding, exact-or-error, negative balance, truncation toward zero, plain rendering that re-parses to the same number, operands unchanged).", technique="functional TLA+ spec over digit sequences + TLC over all pairs of small decimals + result validation by TLC", note="the specification is the reference; it is itself checked against TLC's integers only for small operands; Rem and QuoInteger are not covered"),
    "C20": dict(text=_MC + "ibc-go is represented by recording stand-ins whose tables the behaviour's environment steps set; the real keeper and Msg service run through ABCI.", technique="TLA+ spec + TLC model checking over availability combinations + trace validation", note="stand-ins for the ICA controller and capability keepers; " + _NOTE),
}
for _k in TEXT:
    TEXT[_k].setdefault("note", _NOTE)
