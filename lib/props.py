"""Per-property wiring: which bounded configurations are model-checked, which
formulas are the property's own (layer A), and how behaviours are generated.

For the ecocredit family every entry names
  mc      : list of (cfg, timeout_s) exhaustive configurations (quick tier)
  mc_thorough : same for the thorough tier
  inv     : state predicates of Props.tla (INVARIANTS in MC and on traces)
  step    : names X such that X_Step is a step clause (X_Prop in MC, T_X on traces)
  tinv    : trace-only state predicates (observations)
  gen     : list of (cfg, behaviours, depth) to simulate for the quick tier
"""

ECO_GEN_Q = [("credits_g", 32, 20), ("market_g", 64, 25), ("basket_g", 32, 25), ("basket2_g", 16, 20), ("basket3_g", 16, 20), ("roles_g", 24, 20), ("bridge_g", 32, 20), ("params_g", 40, 20)]
ECO_GEN_T = [("credits_g", 300, 30), ("market_g", 500, 30), ("basket_g", 300, 30), ("basket2_g", 150, 25), ("basket3_g", 150, 25), ("roles_g", 200, 25), ("bridge_g", 300, 25), ("params_g", 300, 25)]

PROFILES = [
    {"unit": "1000000", "render": 0},   # whole credits, plain decimals
    {"unit": "250000", "render": 1},    # quarter credits, mixed renderings
    {"unit": "1", "render": 0},         # smallest unit (10^-6)
    {"unit": "500000", "render": 1},
]

PROPS = {
    "C01": dict(
        family="eco",
        mc=[("credits_q", 120), ("market_q", 300)],
        inv=["C01_Conservation", "C01_NoOrphans", "C01_NonNegative"],
        step=[],
        tinv=["T_C01_WellFormed", "T_C01_ChainInvariantAgrees"],
    ),
    "C02": dict(
        family="eco",
        mc=[("credits_q", 120), ("market_q", 300)],
        inv=["C02_Accounting"],
        step=["C02_OnlyIssuers", "C02_SealedFrozen"],
        tinv=[],
    ),
    "C03": dict(
        family="eco",
        mc=[("credits_q", 120), ("market_q", 300)],
        inv=[],
        step=["C03_Credits", "C03_Coins", "C03_Block"],
        tinv=[],
    ),
    "C05": dict(
        family="eco",
        mc=[("basket_q", 600)], mc_t=[("basket_t", 1500)],
        inv=["C05_Backed"],
        step=["C05_PutMints", "C05_TakeBurns", "C05_OnlyPutTake"],
        tinv=["T_C05_ChainInvariantAgrees"],
    ),
    "C06": dict(
        family="eco",
        mc=[("market_q", 300)],
        inv=["C06_Escrow", "C06_OrderWellFormed"],
        step=["C06_DenomAllowedAtWrite"],
        tinv=["T_C06_OrderQuantitiesWellFormed"],
    ),
    "C07": dict(
        family="eco",
        mc=[("market_q", 300)],
        inv=[],
        step=["C07_Orders", "C07_Credits", "C07_Coins", "C07_NoOtherCoins"],
        tinv=[],
    ),
    "C11": dict(
        family="eco",
        mc=[("basket_q", 600)], mc_t=[("basket_t", 1500)],
        inv=[],
        step=["C11_PutOnlyIf", "C11_PutIf", "C11_OldestFirst", "C11_AutoRetire"],
        tinv=[],
    ),
    "C12": dict(
        family="eco",
        mc=[("market_q", 300)],
        inv=["C12_NoneExpired"],
        step=["C12_Expiry", "C12_NoBuyExpired", "C12_ExpirationAsRequested"],
        tinv=["T_C12_BlockNeverFails"],
    ),
    "C08": dict(
        family="eco",
        mc=[("roles_q", 120), ("allow_q", 60), ("market_q", 300)],
        inv=[],
        step=["C08_Authorised", "C08_Footprint", "C08_SealedStaysSealed"],
        tinv=[],
    ),
    "C13": dict(
        family="eco",
        mc=[("bridge_q", 200)],
        inv=["C13_AtMostOnce", "C13_ContractsUnique"],
        step=["C13_AllowedSource", "C13_BindingPermanent", "C13_ReceiveIntoBound", "C13_BridgeOut"],
        tinv=[],
    ),
    "C14": dict(
        family="eco",
        mc=[("roles_q", 120), ("allow_q", 60), ("bridge_q", 200), ("credits_q", 120)],
        inv=["C14_Unique", "C14_References", "C14_Format"],
        step=["C14_Consecutive"],
        tinv=[],
    ),
    "C18": dict(
        family="eco",
        mc=[("params_q", 300), ("zerofee_q", 60)],
        inv=[],
        step=["C18_FeeExact", "C18_NoFeatureDisabled"],
        tinv=[],
        tstep=["T_C18_NoAbnormalAbort"],
    ),
    "C09": dict(
        family="eco", level="exploration", mc=[],
        parts=[
            dict(family="eco", mc=[], inv=[], step=[], tinv=["T_C09_RoundTrip"], tstep=["T_C09_SameState"], observers="export"),
            dict(family="data", mc_module="MC_Data", trace_module="TraceData", mc=[], inv=[], step=[],
                 tinv=["T_C09_RoundTrip"], tstep=["T_C09_SameState"], observers="export",
                 gen=[("data_inj_q", 16, 20), ("data_buckets_q", 8, 20)], gen_t=[("data_inj_q", 100, 25), ("data_buckets_q", 60, 25)]),
        ],
    ),
    "C10": dict(
        family="eco", level="exploration", mc=[],
        parts=[
            dict(family="eco", mc=[], inv=[], step=[], tinv=["T_C10_SameDigests"],
                 tstep=["T_C10_FailedLeavesNoTrace", "T_C10_RestartInvisible"], observers="replica"),
            dict(family="data", mc_module="MC_Data", trace_module="TraceData", mc=[], inv=[], step=[],
                 tinv=["T_C10_SameDigests"], tstep=["T_C10_FailedLeavesNoTrace"], observers="replica",
                 gen=[("data_inj_q", 16, 20), ("data_buckets_q", 8, 20)], gen_t=[("data_inj_q", 100, 25), ("data_buckets_q", 60, 25)]),
        ],
    ),
    "C20": dict(
        family="intertx", mc_module="MC_Intertx", trace_module="TraceIntertx",
        mc=[("intertx_q", 120)],
        inv=["C20_OwnPort"], step=["C20_Forward"], tinv=["T_C20_NoPanic"],
        gen=[("intertx_g", 40, 25)], gen_t=[("intertx_g", 400, 30)],
    ),
    "C15": dict(family="iri", mc=[], inv=[], step=[], tinv=[]),
    "C16": dict(
        family="data", mc_module="MC_Data", trace_module="TraceData",
        mc=[("data_q", 300), ("data_buckets_q", 300), ("data_equal_q", 300)],
        inv=["C16_IdInjective", "C16_RowsReferToIds"],
        step=["C16_Stable", "C16_FirstTime", "C16_Responses", "C16_ManagerOnly", "C16_Footprint"],
        tinv=[],
        gen=[("data_q", 24, 25), ("data_buckets_q", 24, 25), ("data_equal_q", 16, 25), ("data_inj_q", 16, 25)],
        gen_t=[("data_q", 200, 30), ("data_buckets_q", 200, 30), ("data_equal_q", 100, 30), ("data_inj_q", 100, 30)],
    ),
    "C17": dict(
        family="eco", mc=[],
        parts=[
            dict(family="eco", mc=[], inv=[], step=[], tinv=["T_C17_Lists", "T_C17_Singles"], observers="query"),
        ],
    ),
    "C04": dict(
        family="eco",
        mc=[("credits_q", 120), ("market_q", 300)],
        inv=[],
        step=["C04_Permanence"],
        tinv=[],
    ),
}

HOOK_COMMITS = ["65ff9943f"]

NOT_APPLICABLE = {
    "C19": "numeric accuracy of pure decimal functions over 34-digit coefficients: TLC integers are 32-bit and there is no state machine to specify (DESIGN.md 5, C19)",
}
