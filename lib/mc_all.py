#!/usr/bin/env python3
"""Dev tool: model-check one configuration with EVERY formula of Props.tla."""
import sys, re, os
sys.path.insert(0, os.path.dirname(os.path.abspath(__file__)))
import pipeline as P
props = open(os.path.join(P.SPEC, "Props.tla")).read()
steps = [x + "_Prop" for x in re.findall(r"^(C\d+_\w+)_Step\s*==", props, flags=re.M)]
invs = [x for x in re.findall(r"^(C\d+_\w+)\s*==", props, flags=re.M) if not x.endswith(("_Step", "_Prop", "_TStep"))]
cfg = sys.argv[1]
to = int(sys.argv[2]) if len(sys.argv) > 2 else 300
r = P.model_check(cfg, timeout=to, invariants=invs, properties=steps)
print(cfg, {k: r[k] for k in ("states", "transitions", "complete", "ok", "wall_s")}, r["violations"])
if not r["ok"]:
    print(r["tail"][-3500:])
