"""A small parser for TLA+ values as TLC prints them (simulation files, dot
dumps, counterexamples): records, sets, sequences, functions (a :> b @@ ...),
strings, integers, booleans.  Sets and sequences become lists, records and
functions with string keys become dicts."""

import re


class P:
    def __init__(self, s):
        self.s = s
        self.i = 0

    def ws(self):
        s, n = self.s, len(self.s)
        while self.i < n and s[self.i] in " \t\r\n":
            self.i += 1

    def peek(self, k=1):
        return self.s[self.i:self.i + k]

    def eat(self, tok):
        self.ws()
        if not self.s.startswith(tok, self.i):
            raise ValueError("expected %r at %d: %r" % (tok, self.i, self.s[self.i:self.i + 40]))
        self.i += len(tok)

    def value(self):
        self.ws()
        s = self.s
        c = s[self.i]
        if c == '"':
            j = self.i + 1
            out = []
            while s[j] != '"':
                if s[j] == '\\':
                    j += 1
                out.append(s[j])
                j += 1
            self.i = j + 1
            return "".join(out)
        if c == '[':
            self.i += 1
            self.ws()
            d = {}
            if self.peek() == ']':
                self.i += 1
                return d
            while True:
                self.ws()
                m = re.compile(r"[A-Za-z_][A-Za-z_0-9]*").match(s, self.i)
                key = m.group(0)
                self.i = m.end()
                self.eat("|->")
                d[key] = self.value()
                self.ws()
                if self.peek() == ',':
                    self.i += 1
                    continue
                self.eat("]")
                return d
        if c == '{':
            self.i += 1
            return self.items("}")
        if s.startswith("<<", self.i):
            self.i += 2
            return self.items(">>")
        if c == '(':
            # function: (k :> v @@ k :> v)
            self.i += 1
            d = {}
            while True:
                k = self.value()
                self.eat(":>")
                v = self.value()
                d[str(k) if not isinstance(k, str) else k] = v
                self.ws()
                if s.startswith("@@", self.i):
                    self.i += 2
                    continue
                self.eat(")")
                return d
        m = re.compile(r"-?[0-9]+").match(s, self.i)
        if m:
            self.i = m.end()
            return int(m.group(0))
        if s.startswith("TRUE", self.i):
            self.i += 4
            return True
        if s.startswith("FALSE", self.i):
            self.i += 5
            return False
        m = re.compile(r"[A-Za-z_][A-Za-z_0-9]*").match(s, self.i)
        if m:  # model value
            self.i = m.end()
            return m.group(0)
        raise ValueError("cannot parse at %d: %r" % (self.i, s[self.i:self.i + 40]))

    def items(self, close):
        out = []
        self.ws()
        if self.s.startswith(close, self.i):
            self.i += len(close)
            return out
        while True:
            out.append(self.value())
            self.ws()
            if self.peek() == ',':
                self.i += 1
                continue
            self.eat(close)
            return out


def parse_value(s):
    p = P(s)
    v = p.value()
    return v


_var_re = re.compile(r"^/\\ ([A-Za-z_][A-Za-z_0-9]*) = ", re.M)


def parse_state(text):
    """text: the conjunction '/\\ x = ... /\\ y = ...' of one TLC state."""
    out = {}
    ms = list(_var_re.finditer(text))
    for k, m in enumerate(ms):
        end = ms[k + 1].start() if k + 1 < len(ms) else len(text)
        out[m.group(1)] = parse_value(text[m.end():end])
    return out


def parse_behaviour_file(path):
    """A file written by `tlc -simulate file=...`: list of states (dicts)."""
    txt = open(path).read()
    parts = re.split(r"^STATE_\d+ ==\s*$", txt, flags=re.M)[1:]
    states = []
    for p in parts:
        # cut the trailing comment of the next action / module end
        p = re.split(r"^\\\*|^=====", p, flags=re.M)[0]
        states.append(parse_state(p))
    return states
