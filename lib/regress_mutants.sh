#!/bin/bash
# Re-tries every kept seeded change against the quick checks of its property, in parallel lanes.
# Each lane has its own scratch worktree of /repo and its own copy of /verif (harness go.mod
# pointed at the lane's worktree), so /repo itself is never touched.  Results: /tmp/reg/results.txt
# usage: lib/regress_mutants.sh [lanes] [mutant-dir ...]
lanes=${1:-4}; shift
muts=("$@"); [ ${#muts[@]} -eq 0 ] && muts=($(ls -d /verif/seeded/*/ | xargs -n1 basename))
rm -rf /tmp/reg; mkdir -p /tmp/reg; : > /tmp/reg/results.txt
for k in $(seq 1 $lanes); do
  git -C /repo worktree add --detach /tmp/reg/repo$k HEAD >/dev/null 2>&1
  rsync -a --exclude .git --exclude .cache --exclude 'harness/bin' --exclude replays /verif/ /tmp/reg/verif$k/
  sed -i "s#=> /repo/#=> /tmp/reg/repo$k/#" /tmp/reg/verif$k/harness/go.mod
  ln -s /verif/.cache /tmp/reg/verif$k/.cache
done
lane() {
  k=$1; shift
  for m in "$@"; do
    pid=${m%%-*}
    git -C /tmp/reg/repo$k apply /verif/seeded/$m/patch.diff || { echo "$m APPLY-FAILED" >> /tmp/reg/results.txt; continue; }
    out=$(cd /tmp/reg/verif$k && VERIF_DEV_SKIP_MC=1 VERIF_EVIDENCE_DIR=/tmp/reg/ev$k ./check $pid 2>&1); rc=$?; echo "$out" > /tmp/reg/out-$m.log
    echo "$m rc=$rc $(echo "$out" | grep -c spec-divergence) divergences; $(echo "$out" | grep -m1 -A1 VIOLATION | tr '\n' ' ' | cut -c1-200)" >> /tmp/reg/results.txt
    git -C /tmp/reg/repo$k checkout -- . ; git -C /tmp/reg/repo$k clean -fdq
  done
}
i=0; declare -A L
for m in "${muts[@]}"; do k=$(( i % lanes + 1 )); L[$k]="${L[$k]} $m"; i=$((i+1)); done
for k in $(seq 1 $lanes); do lane $k ${L[$k]} & done
wait
for k in $(seq 1 $lanes); do git -C /repo worktree remove --force /tmp/reg/repo$k; rm -rf /tmp/reg/verif$k /tmp/reg/ev$k; done
git -C /repo worktree prune
sort /tmp/reg/results.txt
