#!/bin/bash
# verify_mutant.sh <name> <dir with patch.diff and demo/> : confirms in a scratch
# worktree that the change compiles, passes the existing suite of the touched
# modules, and that the demonstration fails with it and passes without it.
set -u
name=$1; src=$2; pkgs=""
export GOFLAGS=-mod=mod GOPROXY=off GOSUMDB=off GOTOOLCHAIN=local
wt=/tmp/vw/$name
log=/tmp/vw/$name.log
rm -rf $wt; git -C /repo worktree prune
git -C /repo worktree add --detach -f $wt HEAD >/dev/null 2>&1 || { echo "worktree failed"; exit 2; }
cd $wt
git apply $src/patch.diff || { echo "RESULT $name patch-does-not-apply" | tee -a $log; exit 1; }
mods=$(git diff --name-only | sed -E 's#^(x/[a-z]+|types|api)/.*#\1#; t; s#.*#.#' | sort -u)
echo "modules: $mods" > $log
ok=1
for m in $mods; do
  (cd $wt/$m && go build ./... >> $log 2>&1) || { echo "build failed in $m" >> $log; ok=0; }
  (cd $wt/$m && go test -vet=off -count=1 -timeout 25m ./... >> $log 2>&1) || { echo "existing tests FAIL in $m" >> $log; ok=0; }
done
echo "suite_with_change_ok=$ok" >> $log
# place the demo files
demos=$(cd $src/demo && find . -name '*_test.go' -o -name '*.go' | sed 's#^\./##')
for f in $demos; do
  # intended path: README mentions it; fall back to searching the agent's worktree
  base=$(basename $f)
  if [ -d "$(dirname $wt/$f)" ] && [ "$(dirname $f)" != "." ]; then dest=$wt/$f; else
    orig=$(cd $(dirname $src) && git status --porcelain | awk '{print $2}' | grep "$base" | grep -v _out | head -1)
    dest=$wt/$orig
  fi
  mkdir -p $(dirname $dest); cp $src/demo/$f $dest; echo "demo $f -> $dest" >> $log
  pkgs="$pkgs $(dirname $dest)"
done
fail_with=0; pass_without=1
for d in $(echo $pkgs | tr ' ' '\n' | sort -u); do
  (cd $d && go test -vet=off -count=1 -run 'Seeded|seeded|Demo' . >> $log 2>&1) ; rc=$?
  [ $rc -ne 0 ] && fail_with=1
done
git apply -R $src/patch.diff
for d in $(echo $pkgs | tr ' ' '\n' | sort -u); do
  (cd $d && go test -vet=off -count=1 -run 'Seeded|seeded|Demo' . >> $log 2>&1) || pass_without=0
done
echo "RESULT $name suite_with_change_ok=$ok demo_fails_with=$fail_with demo_passes_without=$pass_without" | tee -a $log
cd /; git -C /repo worktree remove --force $wt
