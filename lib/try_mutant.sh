#!/bin/bash
# usage: lib/try_mutant.sh seeded/<x> <property>...   -- apply a seeded change to /repo, run the
# quick checks (model checking skipped: the change is in the code, not the spec), undo it.
d=$1; shift
git -C /repo apply "$(cd "$d" && pwd)/patch.diff" || exit 3
trap 'git -C /repo checkout -- . ' EXIT
for p in "$@"; do
  out=$(VERIF_DEV_SKIP_MC=1 VERIF_EVIDENCE_DIR=/tmp/vw/ev "$(dirname "$0")/../check" $p 2>&1); rc=$?
  echo "== $(basename $d) $p rc=$rc"
  echo "$out" | grep -E "VIOLATION|KNOWN|INCONCLUSIVE|spec-divergence" | cut -c1-260 | head -8
done
