#!/usr/bin/env python3
"""Prints markdown tables of what the last runs measured (from evidence/*.json): exhaustive
configurations (states / transitions / time), edge covers, per-property wall time."""
import json, glob, os
root = os.path.dirname(os.path.dirname(os.path.abspath(__file__)))
mc, edge, rows = {}, {}, []
for f in sorted(glob.glob(os.path.join(root, "evidence", "*.json"))):
    d = json.load(open(f))
    c = d["coverage"]
    for m in c.get("mc", []):
        if m.get("cfg"):
            mc[m["cfg"]] = m
    for e in c.get("edge_cover", []) or []:
        edge[e["cfg"]] = e
    rows.append((d["property_id"], d["tier"], d.get("status"), c.get("evaluations"), c.get("divergences"), d["wall_s"]))
print("| cfg | states | transitions | time |\n|---|---|---|---|")
for k, m in sorted(mc.items()):
    print("| `%s` | %s | %s | %.0f s |" % (k, f"{m.get('states') or 0:,}".replace(",", " "), f"{m.get('transitions') or 0:,}".replace(",", " "), m.get("wall_s") or 0))
print("\n| edge cover | states | transitions executed on the code | divergences | time |\n|---|---|---|---|---|")
for k, e in sorted(edge.items()):
    print("| `%s` | %s | %s | %s | %.0f s |" % (k, f"{e.get('states') or 0:,}".replace(",", " "), f"{e.get('edges') or 0:,}".replace(",", " "), e.get("divergences"), e.get("wall_s") or 0))
print("\n| property | tier | status | trace lines / cases validated | divergences | wall time |\n|---|---|---|---|---|---|")
for r in rows:
    print("| %s | %s | %s | %s | %s | %.0f s |" % r)
