#!/bin/bash
# intake.sh <prop> <letter>: takes a sub-agent's result from /tmp/sa/<prop>/_out into seeded/<prop>-<letter>,
# removes the agent's worktree and confirms the change independently (lib/verify_mutant.sh)
p=$1; l=$2; src=/tmp/sa/$p/_out; dst=/verif/seeded/$p-$l
[ -f $src/patch.diff ] || { echo "no patch for $p"; exit 1; }
mkdir -p $dst; cp $src/patch.diff $dst/; rm -rf $dst/demo; cp -r $src/demo $dst/demo; cp $src/README.md $dst/AGENT_README.md
git -C /repo worktree remove --force /tmp/sa/$p; git -C /repo worktree prune
mkdir -p /tmp/vw
bash /verif/lib/verify_mutant.sh $p-$l $dst 2>&1 | tail -2
