"""Orchestration primitives shared by ./check: build the harness from /repo's
working tree, model-check a configuration, generate behaviours with TLC,
execute them on the real code, validate the implementation trace with TLC."""

import hashlib
import json
import os
import re
import shutil
import subprocess
import sys
import tempfile
import time

ROOT = os.path.dirname(os.path.dirname(os.path.abspath(__file__)))
SPEC = os.path.join(ROOT, "spec")
HARNESS = os.path.join(ROOT, "harness")
CACHE = os.path.join(ROOT, ".cache")
sys.path.insert(0, os.path.join(ROOT, "lib"))
import tlaval  # noqa: E402

GOENV = dict(os.environ, GOFLAGS="-mod=mod", GOPROXY="off", GOSUMDB="off", GOTOOLCHAIN="local")
NCPU = os.cpu_count() or 4


class Inconclusive(Exception):
    pass


def log(*a):
    print(*a, file=sys.stderr, flush=True)


def scratch(prefix):
    base = os.environ.get("VERIF_SCRATCH") or tempfile.gettempdir()
    return tempfile.mkdtemp(prefix="verif-" + prefix + "-", dir=base)


# ---------------------------------------------------------------- harness build
def build_harness():
    """Rebuild the harness against /repo's current working tree (-tags verif).
    Returns (path, sha256 of the binary)."""
    os.makedirs(os.path.join(HARNESS, "bin"), exist_ok=True)
    # checks may run concurrently: build to a private file, then publish it under its
    # content hash (atomic rename; identical builds coincide)
    tmp = os.path.join(HARNESS, "bin", "harness.build%d" % os.getpid())
    t0 = time.time()
    p = subprocess.run(["go", "build", "-buildvcs=false", "-tags", "verif", "-o", tmp, "."], cwd=HARNESS, env=GOENV,
                       stdout=subprocess.PIPE, stderr=subprocess.STDOUT, text=True)
    if p.returncode != 0:
        raise Inconclusive("harness build failed:\n" + p.stdout[-4000:])
    h = hashlib.sha256(open(tmp, "rb").read()).hexdigest()
    out = os.path.join(HARNESS, "bin", "harness-" + h[:16])
    os.replace(tmp, out)
    for f in os.listdir(os.path.join(HARNESS, "bin")):        # drop binaries of older trees
        fp = os.path.join(HARNESS, "bin", f)
        try:
            if f.startswith("harness") and fp != out and time.time() - os.path.getmtime(fp) > 3 * 3600:
                os.remove(fp)
        except OSError:
            pass
    log("harness built in %.1fs (%s)" % (time.time() - t0, h[:12]))
    return out, h


def spec_hash():
    h = hashlib.sha256()
    for root in (SPEC, os.path.join(ROOT, "lib")):
        for d, _, fs in sorted(os.walk(root)):
            for f in sorted(fs):
                if f.endswith((".tla", ".cfg", ".py")):
                    h.update(f.encode())
                    h.update(open(os.path.join(d, f), "rb").read())
    return h.hexdigest()


# ---------------------------------------------------------------- TLC
def _copy_spec(d):
    for f in os.listdir(SPEC):
        if f.endswith(".tla"):
            shutil.copy(os.path.join(SPEC, f), d)


def run_tlc(d, module, args, timeout, workers=None, java_opts=None):
    cmd = ["tlc", "-metadir", os.path.join(d, "md")]
    env = None
    if java_opts:
        env = dict(os.environ, JAVA_TOOL_OPTIONS=(os.environ.get("JAVA_TOOL_OPTIONS", "") + " " + java_opts).strip())
    if workers:
        cmd += ["-workers", str(workers)]
    cmd += args + [module]
    t0 = time.time()
    try:
        p = subprocess.run(cmd, cwd=d, stdout=subprocess.PIPE, stderr=subprocess.STDOUT, text=True,
                           timeout=timeout, errors="replace", env=env)
        out, rc = p.stdout, p.returncode
    except subprocess.TimeoutExpired as e:
        subprocess.run(["pkill", "-f", "tlc2.TL[C].*" + re.escape(d)])
        out = (e.stdout or b"")
        if isinstance(out, bytes):
            out = out.decode(errors="replace")
        rc = -9
    return rc, out, time.time() - t0


def strip_props(cfg):
    cfg = re.sub(r"^(INVARIANTS?|PROPERTIES|PROPERTY)\n(  .*\n)*", "", cfg, flags=re.M)
    return cfg


def model_check(cfg_name, timeout=600, module="MC_Eco", invariants=None, properties=None, extra=None):
    """Exhaustive TLC run of spec/cfg/<cfg_name>.cfg with the given formulas
    (None = the ones listed in the file).  Returns dict with states,
    transitions, ok, output tail."""
    d = scratch("mc")
    try:
        _copy_spec(d)
        cfg = open(os.path.join(SPEC, "cfg", cfg_name + ".cfg")).read()
        if invariants is not None or properties is not None:
            cfg = strip_props(cfg)
            if invariants:
                cfg += "INVARIANTS\n" + "".join("  %s\n" % x for x in invariants)
            if properties:
                cfg += "PROPERTIES\n" + "".join("  %s\n" % x for x in properties)
        open(os.path.join(d, module + ".cfg"), "w").write(cfg)
        cex = os.path.join(d, "cex.json")
        rc, out, wall = run_tlc(d, module + ".tla", (extra or []) + ["-dumpTrace", "json", cex], timeout, workers=NCPU)
        res = {"cfg": cfg_name, "rc": rc, "wall_s": round(wall, 1), "ok": False, "states": 0, "transitions": 0,
               "complete": False, "counterexample": None}
        if os.path.exists(cex):
            try:
                states = [x[1] for x in json.load(open(cex))["counterexample"]["state"]]
                res["counterexample"] = states
            except Exception as e:  # noqa
                res["counterexample_error"] = str(e)
        m = re.search(r"(\d+) states generated, (\d+) distinct states found, (\d+) states left on queue", out)
        if m:
            res["transitions"] = int(m.group(1))
            res["states"] = int(m.group(2))
            res["complete"] = int(m.group(3)) == 0
        if "Model checking completed. No error has been found." in out:
            res["ok"] = True
        viol = re.findall(r"(Invariant \S+ is violated|Action property \S+ is violated|Temporal properties were violated|Error: .*)", out)
        res["violations"] = viol[:5]
        res["tail"] = "\n".join([x for x in out.splitlines() if not x.startswith(("Linting", "Semantic", "Parsing"))][-30:])
        if rc == -9:
            res["timeout"] = True
        return res
    finally:
        shutil.rmtree(d, ignore_errors=True)


def _simulate_one(args):
    cfg_name, num, depth, seed, module, timeout = args
    d = scratch("sim")
    try:
        _copy_spec(d)
        cfg = open(os.path.join(SPEC, "cfg", cfg_name + ".cfg")).read()
        # behaviours are generated from the same constants, with the biased
        # next-state relation and without properties
        cfg = re.sub(r"^SPECIFICATION .*$", "INIT Init\nNEXT GenNext", cfg, flags=re.M)
        cfg = strip_props(cfg)
        cfg = re.sub(r"^VIEW .*\n", "", cfg, flags=re.M)
        open(os.path.join(d, module + ".cfg"), "w").write(cfg)
        os.makedirs(os.path.join(d, "b"))
        rc, out, wall = run_tlc(d, module + ".tla",
                                ["-simulate", "file=%s,num=%d" % (os.path.join(d, "b", "t"), num),
                                 "-depth", str(depth), "-seed", str(seed)], timeout, workers=1,
                                java_opts="-Xmx3g")        # (eight of these run side by side; the JVM default is a quarter of the RAM each)
        files = sorted(os.listdir(os.path.join(d, "b")))
        if not files:
            return ("error", "TLC simulation produced no behaviours:\n" + out[-3000:])
        if rc == -9:
            # killed (by the timeout, or by the kernel under memory pressure): the file being written is truncated -- inconclusive, never a crash
            return ("error", "TLC simulation of %s was killed (timeout %ds or out of memory; %d behaviours written)" % (cfg_name, timeout, len(files)))
        behs = []
        for f in files:
            try:
                behs.append(tlaval.parse_behaviour_file(os.path.join(d, "b", f)))
            except ValueError as e:
                return ("error", "behaviour file %s of %s could not be parsed: %s" % (f, cfg_name, e))
        return ("ok", behs)
    finally:
        shutil.rmtree(d, ignore_errors=True)


def simulate(cfg_name, num, depth, seed, module="MC_Eco", timeout=2400, procs=None):
    """TLC -simulate on the configuration's GenNext, split over several TLC
    processes with distinct seeds; returns the behaviours as lists of parsed states."""
    import concurrent.futures
    procs = procs or min(8, max(1, num // 8))
    per = (num + procs - 1) // procs
    jobs = [(cfg_name, per, depth, seed * 7919 + k * 104729 + 1, module, timeout) for k in range(procs)]
    behs = []
    with concurrent.futures.ThreadPoolExecutor(max_workers=procs) as ex:
        for st, r in ex.map(_simulate_one, jobs):
            if st != "ok":
                raise Inconclusive(r)
            behs += r
    return behs[:num]


# ---------------------------------------------------------------- behaviours -> harness
def behaviours_to_ndjson(behs, path, profiles, seed, idprefix="b", observers=None, family="eco", probes=0, fine=False):
    """behs: list of state lists (from TLC).  Writes one behaviour per line.
    observers: None | "export" (ExportImport steps sprinkled in and at the end) |
    "replica" (random restarts at block boundaries, replicas at the end)."""
    import random
    rng = random.Random(seed * 31 + 7)
    with open(path, "w") as f:
        for i, states in enumerate(behs):
            prof = profiles[i % len(profiles)]
            steps = []
            evk, stk = {"data": ("dev", "dst"), "intertx": ("xev", "xst")}.get(family, ("ev", "st"))
            for s in states[1:]:
                m = s[evk]["m"]
                if observers == "replica" and m["type"] == "BeginBlock":
                    m = dict(m, restart=rng.random() < 0.5)
                steps.append(m)
                if observers == "export" and rng.random() < 0.3:
                    steps.append({"type": "ExportImport"})
                if observers == "query" and rng.random() < 0.25:
                    steps.append({"type": "Query", "n": 10})
            if observers == "export":
                steps.append({"type": "ExportImport"})
            if observers == "replica":
                steps.append({"type": "Replica", "n": 3})
            if observers == "query":
                steps.append({"type": "Query", "n": 16})
            b = {"id": "%s%d" % (idprefix, i), "unit": prof["unit"], "render": prof["render"], "seed": seed * 1000 + i,
                 "family": family, "steps": steps}
            if probes and family == "eco" and not observers:
                b["probes"] = probes
            if fine and family == "eco" and i % 2 == 1:
                b["fine"] = True          # market time domain with a sub-second part (harness/names.go)
            if family == "data":
                d0 = states[0]["dst"]
                b["genesis"] = "default"
                b["weak"] = None if d0.get("production") else {"minlen": d0["minlen"], "hashlen": d0["hashlen"], "table": d0["hash"]}
            elif family == "intertx":
                b["genesis"] = "default"
            else:
                b["genesis"] = states[0]["st"]
            f.write(json.dumps(b) + "\n")


def run_harness(binary, behaviours_path, trace_path, timeout=1800):
    p = subprocess.run([binary, "run", "-in", behaviours_path, "-out", trace_path],
                       stdout=subprocess.PIPE, stderr=subprocess.STDOUT, text=True, timeout=timeout)
    if p.returncode != 0:
        raise Inconclusive("harness failed (rc=%d):\n%s" % (p.returncode, p.stdout[-4000:]))
    return p.stdout


# ---------------------------------------------------------------- trace validation
def validate(trace_path, invariants, properties, module="TraceEco", timeout=3600, keep=False):
    """Run the trace specification on trace_path with the given layer-A
    formulas.  Returns dict: accepted, violated (name or None), line, divergences."""
    d = scratch("tv")
    try:
        _copy_spec(d)
        shutil.copy(trace_path, os.path.join(d, "trace.ndjson"))
        cfg = ["SPECIFICATION TraceSpec", "CONSTRAINT Mark", "POSTCONDITION TraceAccepted", "CHECK_DEADLOCK FALSE"]
        if invariants:
            cfg.append("INVARIANTS")
            cfg += ["  " + x for x in invariants]
        if properties:
            cfg.append("PROPERTIES")
            cfg += ["  " + x for x in properties]
        open(os.path.join(d, module + ".cfg"), "w").write("\n".join(cfg) + "\n")
        env_opts = os.environ.get("JAVA_TOOL_OPTIONS", "")
        os.environ["JAVA_TOOL_OPTIONS"] = (env_opts + " -Xss512m").strip()
        try:
            rc, out, wall = run_tlc(d, module + ".tla", [], timeout, workers=1)
        finally:
            os.environ["JAVA_TOOL_OPTIONS"] = env_opts
        res = {"rc": rc, "wall_s": round(wall, 1), "accepted": False, "violated": None, "line": None,
               "divergences": [], "error": None}
        if rc == -9:
            res["error"] = "timeout"
        m = re.search(r"Invariant (\S+) is violated", out) or re.search(r"Action property (\S+) is violated", out)
        if m:
            res["violated"] = m.group(1)
            ls = re.findall(r"^/\\ l = (\d+)", out, flags=re.M)
            if ls:
                res["line"] = int(ls[-1])
        elif "Model checking completed. No error has been found." in out:
            res["accepted"] = True
        else:
            errs = re.findall(r"^Error: .*(?:\n.*){0,6}", out, flags=re.M)
            res["error"] = res["error"] or ("\n".join(errs)[:3000] if errs else out[-3000:])
        for mm in re.finditer(r'<<"DIVERGENCE", (.*?)>>\n', out, flags=re.S):
            try:
                res["divergences"].append(tlaval.parse_value(mm.group(1)))
            except Exception:
                res["divergences"].append({"raw": mm.group(1)[:500]})
        if keep:
            res["dir"] = d
            open(os.path.join(d, "tlc.out"), "w").write(out)
        return res
    finally:
        if not keep:
            shutil.rmtree(d, ignore_errors=True)


# ---------------------------------------------------------------- edge cover
def dump_states(cfg_name, module="MC_Eco", timeout=2400):
    """Exhaustive TLC run with -dump: returns the distinct states (dicts)."""
    d = scratch("dump")
    try:
        _copy_spec(d)
        cfg = strip_props(open(os.path.join(SPEC, "cfg", cfg_name + ".cfg")).read())
        open(os.path.join(d, module + ".cfg"), "w").write(cfg)
        # MC_DataE hides the path (a history variable) behind the VIEW: only a strict breadth-first search
        # (one worker) keeps the SHORTEST path of each state, and with it a deterministic depth-bounded set
        rc, out, wall = run_tlc(d, module + ".tla", ["-dump", os.path.join(d, "states")], timeout,
                                workers=1 if module == "MC_DataE" else NCPU)
        if "Model checking completed" not in out:
            raise Inconclusive("state dump of %s did not complete:\n%s" % (cfg_name, out[-1500:]))
        txt = open(os.path.join(d, "states.dump")).read()
        parts = re.split(r"^State \d+:\s*$", txt, flags=re.M)[1:]
        return [tlaval.parse_state(p) for p in parts]
    finally:
        shutil.rmtree(d, ignore_errors=True)


def edge_messages(cfg_name, states, module="MC_Eco", timeout=1800, gen="EdgeGen", stvar="st"):
    """For every state the full message domain of the configuration (EdgeGen.tla / EdgeGenData.tla)."""
    d = scratch("edges")
    try:
        _copy_spec(d)
        with open(os.path.join(d, "states.ndjson"), "w") as f:
            for s in states:
                f.write(json.dumps(s[stvar]) + "\n")
        cfg = strip_props(open(os.path.join(SPEC, "cfg", cfg_name + ".cfg")).read())
        cfg = re.sub(r"^SPECIFICATION .*$", "INIT Init\nNEXT EStop", cfg, flags=re.M)
        cfg = re.sub(r"^VIEW .*\n", "", cfg, flags=re.M)
        cfg = re.sub(r"^\s*DepthE = .*\n", "", cfg, flags=re.M)
        open(os.path.join(d, gen + ".cfg"), "w").write(cfg)
        env_opts = os.environ.get("JAVA_TOOL_OPTIONS", "")
        os.environ["JAVA_TOOL_OPTIONS"] = (env_opts + " -Xss512m").strip()
        try:
            rc, out, wall = run_tlc(d, gen + ".tla", [], timeout, workers=1)
        finally:
            os.environ["JAVA_TOOL_OPTIONS"] = env_opts
        ep = os.path.join(d, "edges.ndjson")
        if not os.path.exists(ep):
            raise Inconclusive("EdgeGen produced no edges:\n" + out[-2000:])
        res = []
        for ln in open(ep):
            e = json.loads(ln)
            res.append(e["ms"])
        return res
    finally:
        shutil.rmtree(d, ignore_errors=True)


def run_harness_parallel(binary, behaviours_path, trace_path, shards=None, timeout=3600):
    """Splits the behaviours over several harness processes; concatenates the traces in order."""
    import concurrent.futures
    shards = shards or min(NCPU, 12)
    lines = open(behaviours_path).read().splitlines()
    if len(lines) < shards * 4:
        return run_harness(binary, behaviours_path, trace_path, timeout)
    d = scratch("shards")
    try:
        per = (len(lines) + shards - 1) // shards
        jobs = []
        for k in range(shards):
            part = lines[k * per:(k + 1) * per]
            if not part:
                continue
            bp, tp = os.path.join(d, "b%d.ndjson" % k), os.path.join(d, "t%d.ndjson" % k)
            open(bp, "w").write("\n".join(part) + "\n")
            jobs.append((bp, tp))
        with concurrent.futures.ThreadPoolExecutor(max_workers=len(jobs)) as ex:
            list(ex.map(lambda j: run_harness(binary, j[0], j[1], timeout), jobs))
        with open(trace_path, "w") as out:
            for _, tp in jobs:
                out.write(open(tp).read())
    finally:
        shutil.rmtree(d, ignore_errors=True)
