#!/usr/bin/env python3
"""Regenerate the layer-A wrappers of TraceEco.tla from the *_Step definitions
of Props.tla:  T_<name> == [][NotReset => <name>_Step]_tvars."""
import re, os
root = os.path.dirname(os.path.dirname(os.path.abspath(__file__)))
props = open(os.path.join(root, "spec", "Props.tla")).read()
steps = re.findall(r"^(C\d+_\w+)_Step\s*==", props, flags=re.M)
tsteps = set(re.findall(r"^(C\d+_\w+)_TStep\s*==", props, flags=re.M))      # trace-only variants
lines = ["T_%s == [][NotReset => %s_%s]_tvars" % (s, s, "TStep" if s in tsteps else "Step") for s in steps]
p = os.path.join(root, "spec", "TraceEco.tla")
t = open(p).read()
a, b = "\\* BEGIN GENERATED STEP WRAPPERS", "\\* END GENERATED STEP WRAPPERS"
new = t[:t.index(a) + len(a)] + "\n" + "\n".join(lines) + "\n" + t[t.index(b):]
if new != t:                      # checks may run concurrently: write only on change, atomically
    tmp = p + ".tmp%d" % os.getpid()
    open(tmp, "w").write(new)
    os.replace(tmp, p)
print(len(lines), "wrappers")
