------------------------------ MODULE TraceDec ------------------------------
(* what the real decimal arithmetic returned for enumerated and random operand strings
   (results.ndjson, one case per line) validated against the functional specification Dec.tla *)
EXTENDS Dec, Json, TLCExt
Log == ndJsonDeserialize("trace.ndjson")
VARIABLE l
Init == l = 1
Next == l < Len(Log) /\ l' = l + 1
Spec == Init /\ [][Next]_l
Mark == TLCSet(1, l)
TraceAccepted == TLCGet(1) = Len(Log)
Cur == Log[l]

PA == Parse(Cur.a)
PB == Parse(Cur.b)
Both == PA.ok /\ PB.ok
\* the value the code returned, read with the specification's parser from the PLAIN rendering
PR == Parse(Cur.res)
SameValue(d) == PR.ok /\ DCmp(PR.d, d) = 0

\* the code accepts exactly the strings of the specified syntax
C19_ParseSyntax ==
  /\ Cur.a_ok = PA.ok
  /\ (Cur.op \notin {"parse", "trim"} /\ PA.ok) => Cur.b_ok = PB.ok
\* parsing yields exactly the denoted value; rendering is plain and re-parses to the same number
C19_ParseRender ==
  (Cur.op = "parse" /\ PA.ok) => (Cur.res_ok /\ Cur.plain /\ SameValue(PA.d))
\* addition and subtraction never round
C19_AddSub ==
  /\ (Cur.op = "add" /\ Both) => (Cur.res_ok /\ Cur.plain /\ SameValue(DAdd(PA.d, PB.d)))
  /\ (Cur.op = "sub" /\ Both) => (Cur.res_ok /\ Cur.plain /\ SameValue(DSub(PA.d, PB.d)))
\* balance subtraction: an error exactly when the result would be negative
C19_SafeSub ==
  (Cur.op = "safesub" /\ Both) =>
     /\ Cur.res_ok = (DCmp(PA.d, PB.d) >= 0)
     /\ Cur.res_ok => SameValue(DSub(PA.d, PB.d))
\* rounding multiply: correct to 34 significant digits; exact multiply: exact or an error
C19_Mul ==
  /\ (Cur.op = "mul" /\ Both) => (Cur.res_ok /\ SameValue(DMul(PA.d, PB.d).d))
  /\ (Cur.op = "mulexact" /\ Both) =>
        /\ Cur.res_ok = ~DMul(PA.d, PB.d).rounded
        /\ Cur.res_ok => SameValue(DMulExactValue(PA.d, PB.d))
C19_Quo ==
  /\ (Cur.op = "quo" /\ Both) =>
        /\ Cur.res_ok = DQuo(PA.d, PB.d).ok
        /\ Cur.res_ok => SameValue(DQuo(PA.d, PB.d).d)
  /\ (Cur.op = "quoexact" /\ Both) =>
        /\ Cur.res_ok = (DQuo(PA.d, PB.d).ok /\ ~DQuo(PA.d, PB.d).rounded)
        /\ Cur.res_ok => SameValue(DQuo(PA.d, PB.d).d)
\* integer quotient and remainder: q truncated toward zero, an error for a zero divisor or a quotient of
\* more than 34 digits; x = q*y + r whenever both succeed and the remainder was not rounded
C19_QuoRem ==
  /\ (Cur.op = "quoint" /\ Both) =>
        /\ Cur.res_ok = DQuoInteger(PA.d, PB.d).ok
        /\ Cur.res_ok => SameValue(DQuoInteger(PA.d, PB.d).d)
  /\ (Cur.op = "rem" /\ Both) =>
        /\ Cur.res_ok = DRem(PA.d, PB.d).ok
        /\ Cur.res_ok => SameValue(DRem(PA.d, PB.d).d)
\* conversion to integer coins truncates toward zero
C19_Trim == (Cur.op = "trim" /\ PA.ok) => (Cur.res_ok /\ SameValue(DTrim(PA.d)))
C19_Cmp == (Cur.op = "cmp" /\ Both) => Cur.cmp = DCmp(PA.d, PB.d)
\* no operation modifies its operands; nothing panics
C19_NoSideEffects == Cur.unchanged /\ ~Cur.panic
=============================================================================
