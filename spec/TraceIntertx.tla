---------------------------- MODULE TraceIntertx ----------------------------
(* Trace specification of x/intertx (two-layer scheme of TraceEco.tla); the   *)
(* projected state is under "xs".                                             *)
EXTENDS Intertx, Json, TLCExt
TLog == ndJsonDeserialize("trace.ndjson")
VARIABLES l, ob, conf
tvars == <<xst, xev, l, ob, conf>>
ToSet(seq) == {seq[i] : i \in DOMAIN seq}
XStateOf(j) == [f \in DOMAIN j |-> IF f \in {"chans", "caps"} THEN ToSet(j[f]) ELSE j[f]]
EvJ(j) == [type |-> j.type, m |-> j.m, ok |-> j.ok, resp |-> j.resp, signers |-> ToSet(j.signers), dom |-> j.dom]
DiffFields(a, b) == {f \in DOMAIN a : f \notin DOMAIN b \/ a[f] # b[f]}
Conforms(pre, e, post) == LET r == XApply(pre, e.m) IN r.ok = e.ok /\ r.s = post
TraceInit == l = 1 /\ xst = XStateOf(TLog[1].xs) /\ xev = EvJ(TLog[1].ev) /\ ob = TLog[1].ob /\ conf = TRUE
TraceNext ==
  /\ l < Len(TLog) /\ l' = l + 1
  /\ LET ln == TLog[l + 1]  post == XStateOf(ln.xs)  e == EvJ(ln.ev) IN
     /\ xst' = post /\ xev' = e /\ ob' = ln.ob
     /\ IF ln.k = "init" THEN conf' = TRUE
        ELSE /\ conf' = Conforms(xst, e, post)
             /\ (conf' \/ PrintT(<<"DIVERGENCE", [line |-> l + 1, type |-> e.type, impl_ok |-> e.ok,
                                   spec_ok |-> XApply(xst, e.m).ok, fields |-> DiffFields(XApply(xst, e.m).s, post), m |-> e.m]>>))
TraceSpec == TraceInit /\ [][TraceNext]_tvars
Mark == TLCSet(1, l)
TraceAccepted == TLCGet(1) = Len(TLog)
NotReset == xev'.type # "Init"
T_C20_Forward == [][NotReset => C20_Forward_Step]_tvars
T_C20_SendsWhenPossible == [][NotReset => C20_SendsWhenPossible_Step]_tvars
T_C20_NoPanic == ("panicked" \in DOMAIN ob) => ~ob.panicked
T_Conformance == conf
=============================================================================
