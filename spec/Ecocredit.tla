------------------------------ MODULE Ecocredit ------------------------------
(***************************************************************************)
(* The ecocredit application state machine: composition of Bank, Base,     *)
(* Basket and Market into one transition system.                           *)
(*                                                                         *)
(*   st : the chain state (record of tables, see Types.tla)                *)
(*   ev : the last event = the message (or block hook / observation)       *)
(*        that produced st, with its outcome and response                  *)
(*   gh : ghost ledger needed by history properties (C02, C13)             *)
(*                                                                         *)
(* Every message is a step, successful or not:                             *)
(*   Step(m) == \E r \in ApplySet(st, m) : st' = r.s /\ ev' = EvOf(m, r)   *)
(* so properties that quantify over failed messages are ordinary action    *)
(* properties.  Who may send what is NOT restricted here (any account may  *)
(* submit any message); the handlers decide.                               *)
(***************************************************************************)
EXTENDS Market

VARIABLES st, ev, gh
vars == <<st, ev, gh>>

\* ------------------------------------------------------------------ dispatch
Apply1(s, m) ==
  CASE m.type = "CreateClass"             -> H_CreateClass(s, m)
    [] m.type = "CreateProject"           -> H_CreateProject(s, m)
    [] m.type = "CreateBatch"             -> H_CreateBatch(s, m)
    [] m.type = "MintBatchCredits"        -> H_MintBatchCredits(s, m)
    [] m.type = "SealBatch"               -> H_SealBatch(s, m)
    [] m.type = "UpdateBatchMetadata"     -> H_UpdateBatchMetadata(s, m)
    [] m.type = "Send"                    -> H_Send(s, m)
    [] m.type = "Retire"                  -> H_Retire(s, m)
    [] m.type = "Cancel"                  -> H_Cancel(s, m)
    [] m.type = "Bridge"                  -> H_Bridge(s, m)
    [] m.type = "BridgeReceive"           -> H_BridgeReceive(s, m)
    [] m.type = "UpdateClassAdmin"        -> H_UpdateClassAdmin(s, m)
    [] m.type = "UpdateClassIssuers"      -> H_UpdateClassIssuers(s, m)
    [] m.type = "UpdateClassMetadata"     -> H_UpdateClassMetadata(s, m)
    [] m.type = "UpdateProjectAdmin"      -> H_UpdateProjectAdmin(s, m)
    [] m.type = "UpdateProjectMetadata"   -> H_UpdateProjectMetadata(s, m)
    [] m.type = "AddCreditType"           -> H_AddCreditType(s, m)
    [] m.type = "AddClassCreator"         -> H_AddClassCreator(s, m)
    [] m.type = "RemoveClassCreator"      -> H_RemoveClassCreator(s, m)
    [] m.type = "SetClassCreatorAllowlist" -> H_SetClassCreatorAllowlist(s, m)
    [] m.type = "UpdateClassFee"          -> H_UpdateClassFee(s, m)
    [] m.type = "AddAllowedBridgeChain"   -> H_AddAllowedBridgeChain(s, m)
    [] m.type = "RemoveAllowedBridgeChain" -> H_RemoveAllowedBridgeChain(s, m)
    [] m.type = "BurnRegen"               -> H_BurnRegen(s, m)
    [] m.type = "BasketCreate"            -> H_BasketCreate(s, m)
    [] m.type = "Put"                     -> H_Put(s, m)
    [] m.type = "UpdateCurator"           -> H_UpdateCurator(s, m)
    [] m.type = "UpdateBasketFee"         -> H_UpdateBasketFee(s, m)
    [] m.type = "UpdateDateCriteria"      -> H_UpdateDateCriteria(s, m)
    [] m.type = "Sell"                    -> H_Sell(s, m)
    [] m.type = "UpdateSellOrders"        -> H_UpdateSellOrders(s, m)
    [] m.type = "CancelSellOrder"         -> H_CancelSellOrder(s, m)
    [] m.type = "BuyDirect"               -> H_BuyDirect(s, m)
    [] m.type = "AddAllowedDenom"         -> H_AddAllowedDenom(s, m)
    [] m.type = "RemoveAllowedDenom"      -> H_RemoveAllowedDenom(s, m)
    [] m.type = "GovSetFeeParams"         -> H_GovSetFeeParams(s, m)
    [] m.type = "GovSendFromFeePool"      -> H_GovSendFromFeePool(s, m)
    [] m.type = "BankSend"                -> H_BankSend(s, m)
    [] m.type = "BeginBlock"              -> H_BeginBlock(s, m)
    [] m.type = "Unimplemented"           -> H_Unimplemented(s, m)
    \* observation steps leave the state alone
    [] OTHER                              -> Ok(s)

\* a message flagged wf = FALSE was deliberately malformed by the driver at the
\* concrete level (bad decimal, bad address, over-long string...): it must fail
WellFormed(m) == IF "wf" \in DOMAIN m THEN m.wf ELSE TRUE

\* Stateless validation compares address STRINGS (msg.ValidateBasic): "a1" and its
\* upper-case spelling "A1" are different strings of the same account
RawOK(m) ==
  CASE m.type = "Send"                                    -> m.sender # m.recipient
    [] m.type \in {"UpdateClassAdmin", "UpdateProjectAdmin"} -> m.admin # m.new_admin
    [] m.type = "UpdateCurator"                            -> m.curator # m.new_curator
    [] OTHER                                               -> TRUE

\* the handlers work on accounts: recipient-like address fields are mapped to the account
NormIss(is) == [i \in DOMAIN is |-> [is[i] EXCEPT !.to = Acct(@)]]
Norm(m) ==
  CASE m.type = "Send"                                    -> [m EXCEPT !.recipient = Acct(@)]
    [] m.type \in {"CreateBatch", "MintBatchCredits"}      -> [m EXCEPT !.issuance = NormIss(@)]
    [] m.type = "BridgeReceive"                            -> [m EXCEPT !.to = Acct(@)]
    [] m.type \in {"UpdateClassAdmin", "UpdateProjectAdmin"} -> [m EXCEPT !.new_admin = Acct(@)]
    [] m.type = "UpdateCurator"                            -> [m EXCEPT !.new_curator = Acct(@)]
    [] OTHER                                               -> m

ApplySet(s, m) ==
  IF ~WellFormed(m) \/ ~RawOK(m) THEN {Fail(s)}
  ELSE IF m.type = "Take" THEN TakeResults(s, m)
  ELSE {Apply1(s, Norm(m))}

\* ------------------------------------------------------------------ signers
\* the account whose signature the message requires (msg.GetSigners())
SignerOf(m) ==
  CASE m.type \in {"CreateClass", "CreateProject", "UpdateClassAdmin", "UpdateClassIssuers",
                   "UpdateClassMetadata", "UpdateProjectAdmin", "UpdateProjectMetadata"} -> m.admin
    [] m.type \in {"CreateBatch", "MintBatchCredits", "SealBatch", "UpdateBatchMetadata",
                   "BridgeReceive"} -> m.issuer
    [] m.type = "Send" -> m.sender
    [] m.type \in {"Retire", "Cancel", "Bridge", "Put", "Take"} -> m.owner
    [] m.type = "BurnRegen" -> m.burner
    [] m.type \in {"BasketCreate", "UpdateCurator"} -> m.curator
    [] m.type \in {"Sell", "UpdateSellOrders", "CancelSellOrder"} -> m.seller
    [] m.type = "BuyDirect" -> m.buyer
    [] m.type = "BankSend" -> m.from
    [] m.type \in {"BeginBlock", "Restart", "ExportImport", "Query", "Replica"} -> "none"
    [] m.type = "Unimplemented" -> m.signer
    [] OTHER -> m.authority

EvOf(m, r) == [type |-> m.type, m |-> m, ok |-> r.ok, resp |-> r.resp,
               signers |-> {SignerOf(m)}, dom |-> "spec"]

IsBlockEv(e) == e.type = "BeginBlock"
IsObsEv(e)   == e.type \in {"Init", "Restore", "Restart", "ExportImport", "Query", "Replica"}

\* ------------------------------------------------------------------ ghost ledger
\* gh.issued : set of [denom, n]      amount issued into each batch so far
\* gh.origins: set of [cid, id, src]  origin transactions that issued credits
\* gh.dup    : TRUE once an origin transaction has issued twice within a class
TotalOf(sup) == sup.t + sup.r + sup.c

GhostInit(s) ==
  [issued  |-> {[denom |-> b.denom,
                 n |-> IF HasSupply(s, b.key) THEN TotalOf(SupplyOf(s, b.key)) ELSE 0]
                : b \in s.batches},
   origins |-> {[cid |-> IF HasClassKey(s, x.ck) THEN ClassByKey(s, x.ck).id ELSE "?",
                 id |-> x.id, src |-> x.src] : x \in s.origintx},
   dup     |-> FALSE]

IssuingTypes == {"CreateBatch", "MintBatchCredits", "BridgeReceive"}

\* what a successful issuing event issued, read off the event alone
\* (arguments and response), and the class it belongs to (from the pre-state)
IssuedBy(e) ==
  IF ~e.ok \/ e.type \notin IssuingTypes THEN {}
  ELSE IF e.type = "CreateBatch"
       THEN {[denom |-> e.resp.batch_denom,
              n |-> SumIss(e.m.issuance, "t") + SumIss(e.m.issuance, "r")]}
  ELSE IF e.type = "MintBatchCredits"
       THEN {[denom |-> e.m.batch_denom,
              n |-> SumIss(e.m.issuance, "t") + SumIss(e.m.issuance, "r")]}
  ELSE {[denom |-> e.resp.batch_denom, n |-> e.m.amt]}

OriginOf(pre, e) ==
  IF ~e.ok \/ e.type \notin IssuingTypes \/ ~e.m.origin.set THEN {}
  ELSE LET cid ==
         IF e.type = "BridgeReceive" THEN e.m.class_id
         ELSE IF e.type = "CreateBatch"
              THEN (IF HasProjectId(pre, e.m.project_id) /\ HasClassKey(pre, ProjectById(pre, e.m.project_id).ck)
                    THEN ClassByKey(pre, ProjectById(pre, e.m.project_id).ck).id ELSE "?")
         ELSE (IF HasBatchDenom(pre, e.m.batch_denom) /\ BatchResolvable(pre, BatchByDenom(pre, e.m.batch_denom))
               THEN BatchClass(pre, BatchByDenom(pre, e.m.batch_denom)).id ELSE "?")
       IN {[cid |-> cid, id |-> e.m.origin.id, src |-> e.m.origin.src]}

IssuedOf(g, d) == IF \E x \in g.issued : x.denom = d
                  THEN (CHOOSE x \in g.issued : x.denom = d).n ELSE 0

GhostNext(g, pre, e) ==
  LET iss == IssuedBy(e)
      org == OriginOf(pre, e)
  IN [issued  |-> IF iss = {} THEN g.issued
                  ELSE LET x == CHOOSE y \in iss : TRUE IN
                       {y \in g.issued : y.denom # x.denom}
                         \cup {[denom |-> x.denom, n |-> IssuedOf(g, x.denom) + x.n]},
      origins |-> g.origins \cup org,
      dup     |-> g.dup \/ (org \cap g.origins # {})]

\* ------------------------------------------------------------------ steps
Step(m) ==
  \E r \in ApplySet(st, m) :
    /\ st' = r.s
    /\ ev' = EvOf(m, r)
    /\ gh' = GhostNext(gh, st, ev')

InitWith(s0) ==
  /\ st = s0
  /\ ev = [type |-> "Init", m |-> [type |-> "Init"], ok |-> TRUE, resp |-> NoResp,
           signers |-> {}, dom |-> "spec"]
  /\ gh = GhostInit(s0)

\* The state of a fresh chain: module default genesis (credit type C, the
\* allowed denom and fee of the default genesis are configuration, see MC_Eco).
EmptyState ==
  [now |-> 6, unit |-> [un |-> 1, ud |-> 1],
   ctypes |-> {}, classes |-> {}, issuers |-> {}, projects |-> {}, batches |-> {},
   cseq |-> {}, pseq |-> {}, bseq |-> {}, bal |-> {}, supply |-> {},
   origintx |-> {}, contracts |-> {}, allowlist |-> FALSE, creators |-> {},
   classfee |-> NoCoin, chains |-> {},
   baskets |-> {}, bclasses |-> {}, bbal |-> {}, basketfee |-> NoCoin,
   orders |-> {}, markets |-> {}, denoms |-> {},
   feeparams |-> [buyer |-> RateEmpty, seller |-> RateEmpty],
   seq |-> [class |-> 0, project |-> 0, batch |-> 0, basket |-> 0, order |-> 0, market |-> 0],
   coins |-> {}, csupply |-> {}]

=============================================================================
