-------------------------------- MODULE Iri --------------------------------
(***************************************************************************)
(* Functional specification of the content hash <-> IRI conversion of      *)
(* x/data (iri.go, types.go).                                              *)
(*                                                                         *)
(* A content hash is a record                                              *)
(*   [kind, h, hlen, alg, canon, merkle, ext]                              *)
(* kind "raw" | "graph"; h names the digest bytes (an opaque byte string   *)
(* of length hlen); alg / canon / merkle are the 32-bit algorithm fields;  *)
(* ext is the file extension (raw only, "" for graph).                     *)
(*                                                                         *)
(* The IRI is "regen:" ++ base58check(payload) ++ "." ++ ext where the     *)
(* payload is  <<0, alg, digest...>>  (raw) or  <<1, canon, merkle, alg,   *)
(* digest...>> (graph, ext "rdf").  base58check is treated as an injective *)
(* function of the payload, so the model of an IRI is [payload, ext].      *)
(* Each algorithm field occupies ONE byte of the payload.                  *)
(***************************************************************************)
EXTENDS Integers, Sequences, FiniteSets, TLC

ExtOK(x) == x \in {"txt", "a1", "rdf", "abcdef", "zz"}     \* 2..6 chars of [0-9a-z] (pool below)
ExtPool == {"txt", "a1", "rdf", "abcdef", "zz", "t", "toolong", "TXT", "a.b"}

\* ContentHash.Validate.  ByteFields = TRUE is the repaired validation, which
\* requires every algorithm field to fit the single byte the IRI gives it.
Valid(ch, ByteFields) ==
  /\ ch.hlen >= 20 /\ ch.hlen <= 64
  /\ ch.alg # 0
  /\ ByteFields => (ch.alg < 256 /\ ch.canon < 256 /\ ch.merkle < 256)
  /\ IF ch.kind = "raw" THEN ExtOK(ch.ext) /\ ch.canon = 0 /\ ch.merkle = 0
     ELSE ch.canon # 0 /\ ch.ext = ""

Byte(x) == x % 256

\* ToIRI: the model of the produced IRI
IriOf(ch) ==
  IF ch.kind = "raw"
  THEN [payload |-> <<0, Byte(ch.alg), ch.h, ch.hlen>>, ext |-> ch.ext]
  ELSE [payload |-> <<1, Byte(ch.canon), Byte(ch.merkle), Byte(ch.alg), ch.h, ch.hlen>>, ext |-> "rdf"]

\* ParseIRI on the model of an IRI
ParseOf(iri) ==
  IF iri.payload[1] = 0
  THEN [kind |-> "raw", alg |-> iri.payload[2], h |-> iri.payload[3], hlen |-> iri.payload[4],
        canon |-> 0, merkle |-> 0, ext |-> iri.ext]
  ELSE [kind |-> "graph", canon |-> iri.payload[2], merkle |-> iri.payload[3], alg |-> iri.payload[4],
        h |-> iri.payload[5], hlen |-> iri.payload[6], ext |-> ""]

\* the three clauses of C15 for valid content hashes a, b
C15_RoundTrip(a, bf)    == Valid(a, bf) => ParseOf(IriOf(a)) = a
C15_Injective(a, b, bf) == (Valid(a, bf) /\ Valid(b, bf) /\ a # b) => IriOf(a) # IriOf(b)
C15_Reencodes(a, bf)    == Valid(a, bf) => IriOf(ParseOf(IriOf(a))) = IriOf(a)

=============================================================================
