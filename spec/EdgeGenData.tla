---------------------------- MODULE EdgeGenData ----------------------------
(* see EdgeGen.tla: the full message domain of every dumped state of a data *)
(* configuration (states.ndjson -> edges.ndjson)                            *)
EXTENDS MC_Data, Json

SIn == ndJsonDeserialize("states.ndjson")
ToSetE(seq) == {seq[i] : i \in DOMAIN seq}
DSetFieldsE == {"ids", "anchors", "attests", "resolvers", "dres"}
DStateOfE(j) == [f \in DOMAIN j |-> IF f \in DSetFieldsE THEN ToSetE(j[f]) ELSE j[f]]

Edges == [i \in DOMAIN SIn |->
            [i |-> i, ms |-> UNION {DMsgs(DStateOfE(SIn[i]), T) : T \in DTypes}]]

ASSUME ndJsonSerialize("edges.ndjson", Edges)

EStop == FALSE /\ UNCHANGED dvars
=============================================================================
