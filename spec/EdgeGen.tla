------------------------------ MODULE EdgeGen ------------------------------
(***************************************************************************)
(* Edge cover (thorough tier): for every distinct state of a small          *)
(* exhaustive configuration (states.ndjson, written from TLC's -dump) this  *)
(* module writes the FULL message domain of that state (edges.ndjson), so   *)
(* that every transition of the bounded model -- successful or failing --   *)
(* is executed once on the real code from a real state that projects to    *)
(* the transition's source (the harness imports the state as genesis and    *)
(* tries each message on a throw-away branch).                              *)
(***************************************************************************)
EXTENDS MC_Eco, Json

SIn == ndJsonDeserialize("states.ndjson")
ToSetE(seq) == {seq[i] : i \in DOMAIN seq}
SetFieldsE == {"ctypes", "classes", "issuers", "projects", "batches", "cseq", "pseq", "bseq",
               "bal", "supply", "origintx", "contracts", "creators", "chains", "baskets",
               "bclasses", "bbal", "orders", "markets", "denoms", "coins", "csupply"}
StateOfE(j) == [f \in DOMAIN j |-> IF f \in SetFieldsE THEN ToSetE(j[f]) ELSE j[f]]

Edges == [i \in DOMAIN SIn |->
            [i |-> i, ms |-> UNION {Msgs(StateOfE(SIn[i]), T) : T \in MsgTypes}]]

ASSUME ndJsonSerialize("edges.ndjson", Edges)

EStop == FALSE /\ UNCHANGED <<vars, depth>>
=============================================================================
