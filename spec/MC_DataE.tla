------------------------------ MODULE MC_DataE ------------------------------
(***************************************************************************)
(* Edge cover of the data module.  The data module has no genesis import    *)
(* under the injected weak hasher, so a state is reached on the code by     *)
(* REPLAYING a path: this instance carries the path (the messages of the    *)
(* first visit, a shortest one under breadth-first search) as a history     *)
(* variable that the VIEW hides.  TLC dumps the distinct states with their  *)
(* paths; EdgeGenData.tla writes the full message domain of every state.    *)
(***************************************************************************)
EXTENDS MC_Data
CONSTANT DepthE
VARIABLE path

InitE == Init /\ path = <<>>
NextE == /\ Len(path) < DepthE
         /\ \E T \in DTypes : \E m \in DMsgs(dst, T) : DataStep(m) /\ path' = Append(path, m)
SpecE == InitE /\ [][NextE]_<<dvars, path>>
ViewE == dst
=============================================================================
