-------------------------------- MODULE IdGen --------------------------------
(* writes the candidates that are executed on the chain's validators and parsers:
   the structured boundary combinations of MC_IdFormat and all short sequences *)
EXTENDS MC_IdFormat, Json, SequencesExt
Short == UNION {[1..n -> Alphabet] : n \in 0..6}
Cands == SetToSeq({[chars |-> c] : c \in Structured \cup Short})
ASSUME ndJsonSerialize("cands.ndjson", Cands)
GStop == FALSE /\ UNCHANGED q
=============================================================================
