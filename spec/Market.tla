------------------------------- MODULE Market -------------------------------
(***************************************************************************)
(* x/ecocredit marketplace sub-module.                                     *)
(*   s.orders    : [id, seller, bk, qty, mid, ask, dar, exp, maker]        *)
(*   s.markets   : [id, ct, denom]                                         *)
(*   s.denoms    : [bank, display, exp]     allowed ask denoms             *)
(*   s.feeparams : [buyer, seller]          fee rates (Types!Rate...)      *)
(*   s.unit      : [un, ud]  one abstract credit unit = un/ud credits; the *)
(*                 only place where the real magnitude of a credit matters *)
(*                 is the price arithmetic of BuyDirect.                   *)
(* Price arithmetic is exact rational arithmetic over naturals; coin       *)
(* amounts are truncated toward zero exactly where the keeper calls        *)
(* SdkIntTrim.                                                             *)
(***************************************************************************)
EXTENDS Basket

HasOrder(s, id) == \E o \in s.orders : o.id = id
OrderById(s, id) == CHOOSE o \in s.orders : o.id = id
HasMarketId(s, id) == \E k \in s.markets : k.id = id
MarketById(s, id) == CHOOSE k \in s.markets : k.id = id
DenomAllowed(s, d) == \E x \in s.denoms : x.bank = d

\* get-or-create the market of (credit type, bank denom): [s, id]
MarketFor(s, ct, d) ==
  IF \E k \in s.markets : k.ct = ct /\ k.denom = d
  THEN [s |-> s, id |-> (CHOOSE k \in s.markets : k.ct = ct /\ k.denom = d).id]
  ELSE LET id == s.seq.market + 1 IN
       [s  |-> [s EXCEPT !.markets = @ \cup {[id |-> id, ct |-> ct, denom |-> d]},
                         !.seq = [@ EXCEPT !.market = id]],
        id |-> id]

Escrow(s, a, bk, q) ==
  IF ~HasBal(s, a, bk) \/ BalOf(s, a, bk).t < q THEN Fail(s)
  ELSE Ok(SetBal(s, [BalOf(s, a, bk) EXCEPT !.t = @ - q, !.e = @ + q]))

Unescrow(s, a, bk, q) ==
  IF ~HasBal(s, a, bk) \/ BalOf(s, a, bk).e < q THEN Fail(s)
  ELSE Ok(SetBal(s, [BalOf(s, a, bk) EXCEPT !.e = @ - q, !.t = @ + q]))

\* ------------------------------------------------------------------ Sell
\* e: [denom, qty, ask_denom, ask_amt, dar, exp]
SellOne(s, seller, e) ==
  IF e.qty <= 0 \/ e.ask_amt <= 0 \/ ~HasBatchDenom(s, e.denom) THEN Fail(s) ELSE
  LET b == BatchByDenom(s, e.denom) IN
  IF ~BatchResolvable(s, b) THEN Fail(s) ELSE
  LET mk == MarketFor(s, BatchClass(s, b).ct, e.ask_denom)
      r  == Escrow(mk.s, seller, b.key, e.qty)
      id == s.seq.order + 1
  IN
  IF \/ (e.exp.set /\ e.exp.t <= s.now)
     \/ ~r.ok
     \/ ~DenomAllowed(s, e.ask_denom)
  THEN Fail(s)
  ELSE OkR([r.s EXCEPT
        !.orders = @ \cup {[id |-> id, seller |-> seller, bk |-> b.key, qty |-> e.qty,
                            mid |-> mk.id, ask |-> e.ask_amt, dar |-> e.dar,
                            exp |-> e.exp, maker |-> TRUE]},
        !.seq    = [@ EXCEPT !.order = id]],
      [id |-> id])

RECURSIVE SellFold(_, _, _, _, _)
SellFold(s, seller, os, i, ids) ==
  IF i > Len(os) THEN OkR(s, [sell_order_ids |-> ids])
  ELSE LET r == SellOne(s, seller, os[i]) IN
       IF r.ok THEN SellFold(r.s, seller, os, i + 1, Append(ids, r.resp.id)) ELSE r

H_Sell(s, m) ==
  IF Len(m.orders) = 0 THEN Fail(s)
  ELSE Atomic(s, SellFold(s, m.seller, m.orders, 1, <<>>))

\* ------------------------------------------------------------------ UpdateSellOrders
\* u: [id, qty, ask_denom, ask_amt, dar, exp]   (exp.set = FALSE: keep expiration)
UpdateOne(s, seller, u) ==
  IF u.qty <= 0 \/ u.ask_amt <= 0 \/ ~HasOrder(s, u.id) THEN Fail(s) ELSE
  LET o == OrderById(s, u.id) IN
  IF \/ o.seller # seller
     \/ ~HasBatchKey(s, o.bk)
     \/ ~HasMarketId(s, o.mid)
     \/ ~DenomAllowed(s, u.ask_denom)
     \/ (u.exp.set /\ u.exp.t <= s.now)
  THEN Fail(s) ELSE
  LET b == BatchByKey(s, o.bk) IN
  IF ~BatchResolvable(s, b) THEN Fail(s) ELSE
  LET mk == IF MarketById(s, o.mid).denom # u.ask_denom
            THEN MarketFor(s, BatchClass(s, b).ct, u.ask_denom)
            ELSE [s |-> s, id |-> o.mid]
      r  == IF u.qty > o.qty THEN Escrow(mk.s, o.seller, o.bk, u.qty - o.qty)
            ELSE IF u.qty < o.qty THEN Unescrow(mk.s, o.seller, o.bk, o.qty - u.qty)
            ELSE Ok(mk.s)
      o1 == [o EXCEPT !.qty = u.qty, !.mid = mk.id, !.ask = u.ask_amt, !.dar = u.dar,
                      !.exp = IF u.exp.set THEN u.exp ELSE @, !.maker = TRUE]
  IN IF ~r.ok THEN Fail(s)
     ELSE Ok([r.s EXCEPT !.orders = (@ \ {o}) \cup {o1}])

RECURSIVE UpdateFold(_, _, _, _)
UpdateFold(s, seller, us, i) ==
  IF i > Len(us) THEN Ok(s)
  ELSE LET r == UpdateOne(s, seller, us[i]) IN
       IF r.ok THEN UpdateFold(r.s, seller, us, i + 1) ELSE r

H_UpdateSellOrders(s, m) ==
  IF Len(m.updates) = 0 THEN Fail(s)
  ELSE Atomic(s, UpdateFold(s, m.seller, m.updates, 1))

\* ------------------------------------------------------------------ CancelSellOrder
H_CancelSellOrder(s, m) ==
  IF ~HasOrder(s, m.id) THEN Fail(s) ELSE
  LET o == OrderById(s, m.id) IN
  IF o.seller # m.seller THEN Fail(s) ELSE
  LET r == Unescrow(s, m.seller, o.bk, o.qty) IN
  IF ~r.ok THEN Fail(s) ELSE Ok([r.s EXCEPT !.orders = @ \ {o}])

\* ------------------------------------------------------------------ BuyDirect
\* A rate string the purchase path can use: "" means 0; any other string is
\* parsed with the non-negative decimal parser ("0" / "0.0" are rates of zero).
\* (Before the repair recorded in known_findings.txt the positive-decimal parser
\* was used and a stored zero made every purchase fail.)
RateUsable(r) == r.kind \in {"empty", "zero", "pos"}
RNum(r) == IF r.kind = "pos" THEN r.num ELSE 0
RDen(r) == IF r.kind = "pos" THEN r.den ELSE 1

\* exact amounts as fractions over a common denominator
\*   subtotal  = qty * (un/ud) * ask            = N / D
\*   buyerFee  = subtotal * beta                 = N*bn / (D*bd)
\*   sellerFee = subtotal * sigma                = N*sn / (D*sd)
Cost(s, qty, ask) ==
  LET bt == s.feeparams.buyer
      sl == s.feeparams.seller
      N  == qty * s.unit.un * ask
      D  == s.unit.ud
      bn == RNum(bt)  bd == RDen(bt)
      sn == RNum(sl)  sd == RDen(sl)
  IN [ buyerFeeT  |-> (N * bn) \div (D * bd),                         \* trunc(buyerFee)
       totalT     |-> (N * (bd + bn)) \div (D * bd),                  \* trunc(subtotal + buyerFee)
       feePos     |-> N * (bn * sd + sn * bd) > 0,                    \* buyerFee + sellerFee > 0
       feeT       |-> (N * (bn * sd + sn * bd)) \div (D * bd * sd),   \* trunc(buyerFee + sellerFee)
       \* trunc(subtotal - sellerFee), truncation toward zero; negative when sigma > 1
       sellerT    |-> IF sn > sd THEN -((N * (sn - sd)) \div (D * sd))
                      ELSE (N * (sd - sn)) \div (D * sd) ]

\* o: [id, qty, bid_denom, bid_amt, dar, maxfee (optional coin)]
BuyOne(s, buyer, o) ==
  IF o.qty <= 0 \/ o.bid_amt <= 0 \/ ~HasOrder(s, o.id) THEN Fail(s) ELSE
  LET so == OrderById(s, o.id) IN
  IF \/ so.seller = buyer
     \/ (o.dar /\ ~so.dar)
     \/ ~HasBatchKey(s, so.bk)
     \/ ~HasMarketId(s, so.mid)
  THEN Fail(s) ELSE
  LET b     == BatchByKey(s, so.bk)
      denom == MarketById(s, so.mid).denom
      c     == Cost(s, o.qty, so.ask)
      maxT  == IF o.maxfee.set THEN o.maxfee.amt ELSE 0
      retire == ~o.dar
  IN
  IF \/ ~BatchResolvable(s, b)
     \/ o.bid_denom # denom
     \/ so.ask > o.bid_amt
     \/ so.ask <= 0
     \/ ~RateUsable(s.feeparams.buyer)
     \/ (o.maxfee.set /\ o.maxfee.denom # denom)     \* Coin.IsLT panics on a denom mismatch
     \/ maxT < c.buyerFeeT
     \/ CoinBal(s, buyer, denom) < c.totalT
     \/ so.qty < o.qty
     \/ ~HasBal(s, so.seller, so.bk)
     \/ BalOf(s, so.seller, so.bk).e < o.qty
     \/ (retire /\ (~HasSupply(s, so.bk) \/ SupplyOf(s, so.bk).t < o.qty))
     \/ ~RateUsable(s.feeparams.seller)
     \/ c.sellerT < 0                                \* sdk.NewCoin panics on a negative amount
  THEN Fail(s) ELSE
  LET s1 == [s EXCEPT !.orders = IF so.qty = o.qty THEN @ \ {so}
                                 ELSE (@ \ {so}) \cup {[so EXCEPT !.qty = @ - o.qty]}]
      sb == BalOf(s1, so.seller, so.bk)
      s2 == SetBal(s1, [sb EXCEPT !.e = @ - o.qty])
      bb == BalOf(s2, buyer, so.bk)
      s3 == IF retire
            THEN LET sup == SupplyOf(s2, so.bk) IN
                 SetSupply(SetBal(s2, [bb EXCEPT !.r = @ + o.qty]),
                           [sup EXCEPT !.t = @ - o.qty, !.r = @ + o.qty])
            ELSE SetBal(s2, [bb EXCEPT !.t = @ + o.qty])
      r4 == IF ~c.feePos THEN Ok(s3)
            ELSE LET p == SendLoose(s3, buyer, ModFeePool, denom, c.feeT) IN
                 IF ~p.ok \/ denom # "uregen" \/ c.feeT = 0 THEN p
                 ELSE BurnStrict(p.s, ModFeePool, denom, c.feeT)
      r5 == IF r4.ok THEN SendLoose(r4.s, buyer, so.seller, denom, c.sellerT) ELSE r4
  IN IF r5.ok THEN r5 ELSE Fail(s)

RECURSIVE BuyFold(_, _, _, _)
BuyFold(s, buyer, os, i) ==
  IF i > Len(os) THEN Ok(s)
  ELSE LET r == BuyOne(s, buyer, os[i]) IN
       IF r.ok THEN BuyFold(r.s, buyer, os, i + 1) ELSE r

H_BuyDirect(s, m) ==
  IF Len(m.orders) = 0 THEN Fail(s)
  ELSE Atomic(s, BuyFold(s, m.buyer, m.orders, 1))

\* ------------------------------------------------------------------ governance
H_AddAllowedDenom(s, m) ==
  IF \/ m.authority # Gov
     \/ \E x \in s.denoms : x.bank = m.bank \/ x.display = m.display
  THEN Fail(s)
  ELSE Ok([s EXCEPT !.denoms = @ \cup {[bank |-> m.bank, display |-> m.display, exp |-> m.exp]}])

H_RemoveAllowedDenom(s, m) ==
  IF m.authority # Gov \/ ~DenomAllowed(s, m.denom) THEN Fail(s)
  ELSE Ok([s EXCEPT !.denoms = {x \in @ : x.bank # m.denom}])

\* FeeParams.Validate: both rates non-negative decimals, the seller rate at most 1
RatesValid(b, sl) ==
  /\ b.kind \in {"empty", "zero", "pos"} /\ sl.kind \in {"empty", "zero", "pos"}
  /\ (sl.kind = "pos" => sl.num <= sl.den)

H_GovSetFeeParams(s, m) ==
  IF m.authority # Gov \/ ~RatesValid(m.buyer, m.seller) THEN Fail(s)
  ELSE Ok([s EXCEPT !.feeparams = [buyer |-> m.buyer, seller |-> m.seller]])

H_GovSendFromFeePool(s, m) ==
  IF m.authority # Gov THEN Fail(s)
  ELSE Atomic(s, SendStrict(s, ModFeePool, m.recipient, m.denom, m.n))

\* ------------------------------------------------------------------ BeginBlock
\* PruneSellOrders at block time t: the expiration index is scanned over
\* [epoch + 1ns, t]; every order found is un-escrowed, then the range is deleted.
\* ok = FALSE means the block hook returned an error, i.e. the node panics.
Expired(s, t) == {o \in s.orders : o.exp.set /\ o.exp.t > EpochTick /\ o.exp.t <= t}

RECURSIVE UnescrowAll(_, _)
UnescrowAll(s, os) ==
  IF os = {} THEN Ok(s)
  ELSE LET o == CHOOSE x \in os : TRUE
           r == Unescrow(s, o.seller, o.bk, o.qty)
       IN IF r.ok THEN UnescrowAll(r.s, os \ {o}) ELSE r

H_BeginBlock(s, m) ==
  LET s0 == [s EXCEPT !.now = m.t]
      ex == Expired(s0, m.t)
      r  == UnescrowAll(s0, ex)
  IN IF ~r.ok THEN [ok |-> FALSE, s |-> s0, resp |-> NoResp]
     ELSE Ok([r.s EXCEPT !.orders = @ \ ex])

=============================================================================
