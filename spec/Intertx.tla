------------------------------ MODULE Intertx ------------------------------
(***************************************************************************)
(* x/intertx: SubmitTx forwards one message of an owner over the owner's   *)
(* own interchain-account controller port.                                 *)
(*                                                                         *)
(* State record x:                                                         *)
(*   now    block time (tick)                                              *)
(*   chans  set of [owner, conn]   active channel exists for the owner's   *)
(*                                  controller port on the connection      *)
(*   caps   set of [owner, conn]   the module owns that channel capability *)
(*   sent   sequence of packets handed to the ICA controller:              *)
(*          [owner (recovered from the port id), conn, msgs (names of the  *)
(*           decoded inner messages), kind, dsec, dns (timeout - block     *)
(*           time in seconds / nanoseconds)]                               *)
(*   regs   sequence of [owner, conn, version] account registrations       *)
(* ibc-go is represented by the tables chans / caps, which the environment *)
(* (channel handshakes, capability claims) changes.                        *)
(***************************************************************************)
EXTENDS Types

\* An owner is the STRING given in the message: "A1" is the all-upper-case bech32 spelling
\* of account a1's address (Acct, Types.tla): same signer, different controller port
\* (port ids are case-sensitive).

\* m: [owner, conn, msg]
H_SubmitTx(x, m) ==
  IF [owner |-> m.owner, conn |-> m.conn] \notin x.chans \/ [owner |-> m.owner, conn |-> m.conn] \notin x.caps
  THEN Fail(x)
  ELSE Ok([x EXCEPT !.sent = Append(@, [owner |-> m.owner, conn |-> m.conn, msgs |-> <<m.msg>>,
                                        kind |-> "EXECUTE_TX", dsec |-> 60, dns |-> 0])])

H_RegisterAccount(x, m) ==
  Ok([x EXCEPT !.regs = Append(@, [owner |-> m.owner, conn |-> m.conn, version |-> m.version])])

\* environment
H_SetChannel(x, m) ==
  LET k == [owner |-> m.owner, conn |-> m.conn] IN
  Ok([x EXCEPT !.chans = IF m.active THEN @ \cup {k} ELSE @ \ {k},
               !.caps  = IF m.cap THEN @ \cup {k} ELSE @ \ {k}])

XApply(x, m) ==
  CASE m.type = "SubmitTx"        -> H_SubmitTx(x, m)
    [] m.type = "RegisterAccount" -> H_RegisterAccount(x, m)
    [] m.type = "SetChannel"      -> H_SetChannel(x, m)
    [] m.type = "BeginBlock"      -> Ok([x EXCEPT !.now = m.t])
    [] OTHER                      -> Ok(x)

VARIABLES xst, xev
xvars == <<xst, xev>>

XStep(m) ==
  LET r == XApply(xst, m) IN
  /\ xst' = r.s
  /\ xev' = [type |-> m.type, m |-> m, ok |-> r.ok, resp |-> r.resp,
             signers |-> IF m.type \in {"SubmitTx", "RegisterAccount"} THEN {Acct(m.owner)} ELSE {"none"}, dom |-> "spec"]

XInit ==
  /\ xst = [now |-> 6, chans |-> {}, caps |-> {}, sent |-> <<>>, regs |-> <<>>]
  /\ xev = [type |-> "Init", m |-> [type |-> "Init"], ok |-> TRUE, resp |-> NoResp, signers |-> {}, dom |-> "spec"]

\* ================================================================== C20
\* a packet goes out only as the last step of a successful SubmitTx, over the port
\* of that message's owner (its only signer), on the given connection, carrying
\* exactly the supplied message, as one EXECUTE_TX with a one-minute timeout
C20_Forward_Step ==
  IF xev'.ok /\ xev'.type = "SubmitTx"
  THEN /\ Len(xst'.sent) = Len(xst.sent) + 1
       /\ SubSeq(xst'.sent, 1, Len(xst.sent)) = xst.sent
       /\ LET p == xst'.sent[Len(xst'.sent)] IN
          /\ p.owner = xev'.m.owner /\ xev'.signers = {Acct(xev'.m.owner)}
          /\ p.conn = xev'.m.conn
          /\ p.msgs = <<xev'.m.msg>>
          /\ p.kind = "EXECUTE_TX"
          /\ p.dsec = 60 /\ p.dns = 0
       /\ [owner |-> xev'.m.owner, conn |-> xev'.m.conn] \in xst.chans
       /\ [owner |-> xev'.m.owner, conn |-> xev'.m.conn] \in xst.caps
  ELSE xst'.sent = xst.sent     \* nothing is sent otherwise

\* ... and it DOES forward when the owner's channel is active and its capability exists,
\* whatever the inner message is (it is a message for the host chain: this chain has no
\* business judging its contents)
C20_SendsWhenPossible_Step ==
  (xev'.type = "SubmitTx" /\ xev'.dom = "spec"
     /\ [owner |-> xev'.m.owner, conn |-> xev'.m.conn] \in xst.chans
     /\ [owner |-> xev'.m.owner, conn |-> xev'.m.conn] \in xst.caps) => xev'.ok

\* one owner's message never travels over another owner's port
C20_OwnPort == \A i \in DOMAIN xst.sent : xst.sent[i].owner # "?"

C20_Forward_Prop == [][C20_Forward_Step]_xvars
C20_SendsWhenPossible_Prop == [][C20_SendsWhenPossible_Step]_xvars

=============================================================================
