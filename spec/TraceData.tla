----------------------------- MODULE TraceData -----------------------------
(***************************************************************************)
(* Trace specification of the data module (see TraceEco.tla for the        *)
(* two-layer scheme).  Lines carry the projected data state under "ds".    *)
(***************************************************************************)
EXTENDS Data, Json, TLCExt

TLog == ndJsonDeserialize("trace.ndjson")

VARIABLES l, ob, conf
tvars == <<dst, dev, l, ob, conf>>

ToSet(seq) == {seq[i] : i \in DOMAIN seq}
DSetFields == {"ids", "anchors", "attests", "resolvers", "dres"}
DStateOf(j) == [f \in DOMAIN j |-> IF f \in DSetFields THEN ToSet(j[f]) ELSE j[f]]
EvJ(j) == [type |-> j.type, m |-> j.m, ok |-> j.ok, resp |-> j.resp, signers |-> ToSet(j.signers), dom |-> j.dom]

DiffFields(a, b) == {f \in DOMAIN a : f \notin DOMAIN b \/ a[f] # b[f]}

Conforms(pre, e, post) ==
  LET r == DataApply(pre, e.m) IN r.ok = e.ok /\ r.s = post /\ r.resp = e.resp

Explain(pre, e, post) ==
  LET r == DataApply(pre, e.m) IN
  [line |-> l + 1, type |-> e.type, spec_ok |-> r.ok, impl_ok |-> e.ok,
   fields |-> DiffFields(r.s, post), spec_resp |-> r.resp, impl_resp |-> e.resp, m |-> e.m]

TraceInit ==
  /\ l = 1
  /\ dst = DStateOf(TLog[1].ds)
  /\ dev = EvJ(TLog[1].ev)
  /\ ob = TLog[1].ob
  /\ conf = TRUE

TraceNext ==
  /\ l < Len(TLog)
  /\ l' = l + 1
  /\ LET ln == TLog[l + 1]
         post == DStateOf(ln.ds)
         e == EvJ(ln.ev)
     IN /\ dst' = post
        /\ dev' = e
        /\ ob' = ln.ob
        /\ IF ln.k = "init" THEN conf' = TRUE
           ELSE /\ conf' = Conforms(dst, e, post)
                /\ (conf' \/ PrintT(<<"DIVERGENCE", Explain(dst, e, post)>>))

TraceSpec == TraceInit /\ [][TraceNext]_tvars
Mark == TLCSet(1, l)
TraceAccepted == TLCGet(1) = Len(TLog)

NotReset == dev'.type # "Init"
T_C16_Stable      == [][NotReset => C16_Stable_Step]_tvars
T_C16_FirstTime   == [][NotReset => C16_FirstTime_Step]_tvars
T_C16_Responses   == [][NotReset => C16_Responses_Step]_tvars
T_C16_ManagerOnly == [][NotReset => C16_ManagerOnly_Step]_tvars
T_C16_Footprint   == [][NotReset => C16_Footprint_Step]_tvars
T_C16_Effect      == [][NotReset => C16_Effect_Step]_tvars

\* the data part of C08: only the manager registers to a non-public resolver
T_C08_ResolverManager == T_C16_ManagerOnly

\* C09 / C10 observations (same harness observers as the ecocredit family)
\* known finding (known_findings.txt, key public_resolver_genesis): a public resolver
\* is stored with an empty manager, which the Resolver state validator rejects
KF_public_resolver_genesis ==
  /\ dev.type = "ExportImport"
  /\ ob.validate_data_table = "regen.data.v1.Resolver"
  /\ \E r \in dst.resolvers : r.manager = ""
T_KF_public_resolver_genesis == ~KF_public_resolver_genesis

T_C09_RoundTrip ==
  dev.type = "ExportImport" =>
    /\ ob.export_panic = "" /\ ob.import_panic = ""
    /\ ob.validate_eco = ""
    /\ \/ ob.validate_data = ""
       \/ ("public_resolver_genesis" \in KnownKeys /\ KF_public_resolver_genesis)
    /\ ob.reexport_equal
    /\ ob.inv_after_import = ""
T_C09_ValidatorModel ==
  (dev.type = "ExportImport" /\ ob.export_panic = "") => ((ob.validate_data = "") <=> DataGenesisValid(dst))
T_C09_SameState == [][dev'.type = "ExportImport" => dst' = dst]_tvars
T_C10_SameDigests ==
  dev.type = "Replica" =>
    \A i \in DOMAIN ob.replica_digests : ob.replica_digests[i] = ob.primary_digests
IsMsgEv(e) == e.type \in {"Anchor", "Attest", "DefineResolver", "RegisterResolver"}
T_C10_FailedLeavesNoTrace ==
  [][(NotReset /\ IsMsgEv(dev') /\ ~dev'.ok) => (dst' = dst /\ ob'.kv_before = ob'.kv_after)]_tvars

T_C17_Lists ==
  dev.type = "Query" => \A i \in DOMAIN ob.lists : C17_DataListOK(dst, ob.lists[i])
T_C17_Singles ==
  dev.type = "Query" => \A i \in DOMAIN ob.singles : C17_DataSingleOK(dst, ob.singles[i])

T_Conformance == conf

=============================================================================
