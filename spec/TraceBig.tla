------------------------------ MODULE TraceBig ------------------------------
(* Implementation traces of the "big" family (harness big): every line carries the message sent
   (amounts as the characters of the strings sent) and the balance, supply, basket and bank rows
   AS STORED (characters of the stored strings).  TLC reads them with Dec!Parse and evaluates
     layer A: the large-magnitude clauses of C01, C02, C04, C05, C11 (Big.tla) on the logged states,
     layer B: conformance of every step to Big!Apply (values compared exactly, renderings free). *)
EXTENDS Big, Json, TLCExt
TLog == ndJsonDeserialize("trace.ndjson")
VARIABLES l, bs, bev, ob, issued, wf, conf
tvars == <<l, bs, bev, ob, issued, wf, conf>>

D(str) == Parse(str).d
RowsOf(rows, P(_)) == {i \in DOMAIN rows : P(rows[i])}
\* the value of a column of the one row selected (0 when the row is absent, as the keepers read it)
Col(rows, P(_), f) == LET I == RowsOf(rows, P) IN IF I = {} THEN Zero ELSE D(rows[CHOOSE i \in I : TRUE][f])
StateOf(st) ==
  [bal  |-> [a \in Accts |-> [b \in Batches |->
               [t |-> DAdd(Col(st.bal, LAMBDA r : r.a = a /\ r.b = b, "t"), Col(st.bal, LAMBDA r : r.a = a /\ r.b = b, "e")),
                r |-> Col(st.bal, LAMBDA r : r.a = a /\ r.b = b, "r")]]],
   sup  |-> [b \in Batches |-> [t |-> Col(st.sup, LAMBDA r : r.b = b, "t"), r |-> Col(st.sup, LAMBDA r : r.b = b, "r"),
                                c |-> Col(st.sup, LAMBDA r : r.b = b, "c")]],
   kb   |-> [b \in Batches |-> Col(st.kb, LAMBDA r : r.b = b, "amt")],
   tok  |-> [a \in Accts |-> Col(st.tok, LAMBDA r : r.a = a, "n")],
   tsup |-> D(st.tsup)]
\* every stored amount is a non-negative decimal with at most six places, rows are unique and known
GoodAmt(str) == LET p == Parse(str) IN p.ok /\ ~(p.d.neg /\ ~IsZeroD(p.d)) /\ Places(p.d) <= 6
WellFormed(st) ==
  /\ \A i \in DOMAIN st.bal : GoodAmt(st.bal[i].t) /\ GoodAmt(st.bal[i].r) /\ GoodAmt(st.bal[i].e)
                              /\ st.bal[i].a \in Accts /\ st.bal[i].b \in Batches
  /\ \A i \in DOMAIN st.sup : GoodAmt(st.sup[i].t) /\ GoodAmt(st.sup[i].r) /\ GoodAmt(st.sup[i].c) /\ st.sup[i].b \in Batches
  /\ \A i \in DOMAIN st.kb : GoodAmt(st.kb[i].amt) /\ st.kb[i].b \in Batches
  /\ \A i, j \in DOMAIN st.bal : (st.bal[i].a = st.bal[j].a /\ st.bal[i].b = st.bal[j].b) => i = j
  /\ \A i, j \in DOMAIN st.sup : st.sup[i].b = st.sup[j].b => i = j
  /\ \A i, j \in DOMAIN st.kb : st.kb[i].b = st.kb[j].b => i = j

IssuedInit == [b \in Batches |-> Zero]
EvOf(e) == [type |-> e.type, ok |-> e.ok, m |-> e.m]
TraceInit ==
  /\ l = 1 /\ TLog[1].k = "init"
  /\ bs = StateOf(TLog[1].st) /\ bev = EvOf(TLog[1].ev) /\ ob = TLog[1].ob
  /\ issued = IssuedInit /\ wf = WellFormed(TLog[1].st) /\ conf = TRUE
TraceNext ==
  /\ l < Len(TLog) /\ l' = l + 1
  /\ LET ln == TLog[l + 1]  post == StateOf(ln.st)  e == EvOf(ln.ev) IN
     /\ bs' = post /\ bev' = e /\ ob' = ln.ob /\ wf' = WellFormed(ln.st)
     /\ IF ln.k = "init"
        THEN issued' = IssuedInit /\ conf' = TRUE
        ELSE /\ issued' = IssuedNext(issued, e.m, e.ok)
             /\ conf' = LET r == Apply(bs, e.m) IN r.ok = e.ok /\ SameState(r.s, post)
     /\ (conf' \/ PrintT(<<"DIVERGENCE", [line |-> l + 1, type |-> e.type, code_ok |-> e.ok, spec_ok |-> Apply(bs, e.m).ok]>>))
TraceSpec == TraceInit /\ [][TraceNext]_tvars
Mark == TLCSet(1, l)
TraceAccepted == TLCGet(1) = Len(TLog)
NotReset == bev'.type # "Init"

\* ---- layer A
C01_Big == Big_C01_Conservation(bs) /\ Big_C01_NonNegative(bs)
T_C01_BigWellFormed == wf
T_C01_BigChainInvariantAgrees == ob.inv_batch_supply = ""
C02_Big == Big_C02_Accounting(bs, issued)
C05_Big == Big_C05_Backed(bs)
T_C05_BigChainInvariantAgrees == ob.inv_basket_supply = ""
T_C04_Big == [][NotReset => Big_C04_Step(bs, bs')]_tvars
T_C05_Big == [][NotReset => Big_C05_Step(bs, bs', bev'.m, bev'.ok)]_tvars
T_C11_Big == [][NotReset => Big_C11_Step(bs, bs', bev'.m, bev'.ok)]_tvars
T_NoPanic == ~ob.panicked
\* ---- layer B as an invariant (used by the self-test and reported as divergences otherwise)
Conforms == conf
=============================================================================
