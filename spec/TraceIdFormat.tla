--------------------------- MODULE TraceIdFormat ---------------------------
(* the chain's own validators and parsers, executed on enumerated and mutated candidate
   strings (results.ndjson: one candidate per line, as a sequence of characters), agree with
   the functional specification IdFormat.tla *)
EXTENDS IdFormat, Json, TLCExt
Log == ndJsonDeserialize("trace.ndjson")
VARIABLE l
Init == l = 1
Next == l < Len(Log) /\ l' = l + 1
Spec == Init /\ [][Next]_l
Mark == TLCSet(1, l)
TraceAccepted == TLCGet(1) = Len(Log)
Cur == Log[l]

C14_ValidatorsAgree ==
  /\ Cur.abbrev_ok  = IsAbbrev(Cur.chars)
  /\ Cur.class_ok   = IsClassId(Cur.chars)
  /\ Cur.project_ok = IsProjectId(Cur.chars)
  /\ Cur.batch_ok   = IsBatchDenom(Cur.chars)
\* on accepted ids the parsers recover the embedded ids
C14_ParsersRecover ==
  /\ Cur.class_ok   => Cur.abbrev_of_class = Join(AbbrevOfClassId(Cur.chars))
  /\ Cur.project_ok => Cur.class_of_project = Join(ClassIdOfProjectId(Cur.chars))
  /\ Cur.batch_ok   => /\ Cur.class_of_batch = Join(ClassIdOfBatchDenom(Cur.chars))
                       /\ Cur.project_of_batch = Join(ProjectIdOfBatchDenom(Cur.chars))
C14_NoPanic == ~Cur.panic
=============================================================================
