------------------------------- MODULE Props -------------------------------
(***************************************************************************)
(* One definition per property clause, written over the variables st, ev,  *)
(* gh of Ecocredit.  The SAME formulas are the INVARIANT / PROPERTY        *)
(* entries of the exhaustive configurations (MC_Eco) and of the trace      *)
(* specification (TraceEco), where st / ev are the states and events       *)
(* recorded from the real keepers.                                         *)
(*                                                                         *)
(* State predicates are named Cnn_*; action-level clauses are named        *)
(* Cnn_*_Step (a predicate on st, st', ev') and wrapped as                 *)
(*      Cnn_*_Prop == [][Cnn_*_Step]_vars.                                 *)
(***************************************************************************)
EXTENDS Ecocredit

\* ------------------------------------------------------------------ helpers
BalKeys(s) == {<<r.a, r.bk>> : r \in s.bal}
SumBal(s, bk, F(_)) == SumOver({r \in s.bal : r.bk = bk}, F)
SumBBalDenom(s, d)  == SumOver({x \in s.bbal : x.denom = d}, LAMBDA x : x.amt)
SumBBalBasket(s, bid) == SumOver({x \in s.bbal : x.bid = bid}, LAMBDA x : x.amt)
SupplyOrZero(s, bk) ==
  IF HasSupply(s, bk) THEN SupplyOf(s, bk) ELSE [bk |-> bk, t |-> 0, r |-> 0, c |-> 0]
TotalSup(s, bk) == TotalOf(SupplyOrZero(s, bk))
Changed(f) == st'[f] # st[f]
OnlyChanged(F) == \A f \in DOMAIN st : f \notin F => st'[f] = st[f]
EvIs(T) == ev'.type = T /\ ev'.ok

\* ================================================================== C01
\* Credit conservation: supply = balances + escrow + basket holdings
C01_Conservation ==
  \A b \in st.batches :
    LET sup == SupplyOrZero(st, b.key) IN
    /\ sup.t = SumBal(st, b.key, LAMBDA r : r.t + r.e) + SumBBalDenom(st, b.denom)
    /\ sup.r = SumBal(st, b.key, LAMBDA r : r.r)

\* every balance / supply / basket row belongs to an existing batch, so no
\* credits exist outside the batches the first clause ranges over
C01_NoOrphans ==
  /\ \A r \in st.bal : HasBatchKey(st, r.bk)
  /\ \A r \in st.supply : HasBatchKey(st, r.bk)
  /\ \A x \in st.bbal : HasBatchDenom(st, x.denom)

C01_NonNegative ==
  /\ \A r \in st.bal : r.t >= 0 /\ r.r >= 0 /\ r.e >= 0
  /\ \A r \in st.supply : r.t >= 0 /\ r.r >= 0 /\ r.c >= 0
  /\ \A x \in st.bbal : x.amt >= 0

\* ================================================================== C02
C02_Accounting ==
  \A b \in st.batches : TotalSup(st, b.key) = IssuedOf(gh, b.denom)

C02_OnlyIssuers_Step ==
  \A b \in st'.batches :
    TotalSup(st', b.key) # TotalSup(st, b.key) =>
      /\ ev'.ok /\ ev'.type \in IssuingTypes
      /\ \E x \in IssuedBy(ev') : x.denom = b.denom

C02_SealedFrozen_Step ==
  \A b \in st.batches :
    ~b.open => TotalSup(st', b.key) = TotalSup(st, b.key)

C02_OnlyIssuers_Prop  == [][C02_OnlyIssuers_Step]_vars
C02_SealedFrozen_Prop == [][C02_SealedFrozen_Step]_vars

\* ================================================================== C04
\* Retirement and cancellation are permanent (rows may not disappear either:
\* a missing row counts as zero)
C04_Permanence_Step ==
  /\ \A r \in st.bal : BalOf(st', r.a, r.bk).r >= r.r
  /\ \A r \in st.supply : /\ SupplyOrZero(st', r.bk).r >= r.r
                          /\ SupplyOrZero(st', r.bk).c >= r.c

C04_Permanence_Prop == [][C04_Permanence_Step]_vars

=============================================================================
