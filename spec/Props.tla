------------------------------- MODULE Props -------------------------------
(***************************************************************************)
(* One definition per property clause, written over the variables st, ev,  *)
(* gh of Ecocredit.  The SAME formulas are the INVARIANT / PROPERTY        *)
(* entries of the exhaustive configurations (MC_Eco) and of the trace      *)
(* specification (TraceEco), where st / ev are the states and events       *)
(* recorded from the real keepers.                                         *)
(*                                                                         *)
(* State predicates are named Cnn_*; action-level clauses are named        *)
(* Cnn_*_Step (a predicate on st, st', ev') and wrapped as                 *)
(*      Cnn_*_Prop == [][Cnn_*_Step]_vars.                                 *)
(***************************************************************************)
EXTENDS Ecocredit, Known

\* ------------------------------------------------------------------ helpers
BalKeys(s) == {<<r.a, r.bk>> : r \in s.bal}
SumBal(s, bk, F(_)) == SumOver({r \in s.bal : r.bk = bk}, F)
SumBBalDenom(s, d)  == SumOver({x \in s.bbal : x.denom = d}, LAMBDA x : x.amt)
SumBBalBasket(s, bid) == SumOver({x \in s.bbal : x.bid = bid}, LAMBDA x : x.amt)
SupplyOrZero(s, bk) ==
  IF HasSupply(s, bk) THEN SupplyOf(s, bk) ELSE [bk |-> bk, t |-> 0, r |-> 0, c |-> 0]
TotalSup(s, bk) == TotalOf(SupplyOrZero(s, bk))
Changed(f) == st'[f] # st[f]
OnlyChanged(F) == \A f \in DOMAIN st : f \notin F => st'[f] = st[f]
EvIs(T) == ev'.type = T /\ ev'.ok

\* ================================================================== C01
\* Credit conservation: supply = balances + escrow + basket holdings
C01_Conservation ==
  \A b \in st.batches :
    LET sup == SupplyOrZero(st, b.key) IN
    /\ sup.t = SumBal(st, b.key, LAMBDA r : r.t + r.e) + SumBBalDenom(st, b.denom)
    /\ sup.r = SumBal(st, b.key, LAMBDA r : r.r)

\* every balance / supply / basket row belongs to an existing batch, so no
\* credits exist outside the batches the first clause ranges over
C01_NoOrphans ==
  /\ \A r \in st.bal : HasBatchKey(st, r.bk)
  /\ \A r \in st.supply : HasBatchKey(st, r.bk)
  /\ \A x \in st.bbal : HasBatchDenom(st, x.denom)

C01_NonNegative ==
  /\ \A r \in st.bal : r.t >= 0 /\ r.r >= 0 /\ r.e >= 0
  /\ \A r \in st.supply : r.t >= 0 /\ r.r >= 0 /\ r.c >= 0
  /\ \A x \in st.bbal : x.amt >= 0

\* ================================================================== C02
C02_Accounting ==
  \A b \in st.batches : TotalSup(st, b.key) = IssuedOf(gh, b.denom)

C02_OnlyIssuers_Step ==
  \A b \in st'.batches :
    TotalSup(st', b.key) # TotalSup(st, b.key) =>
      /\ ev'.ok /\ ev'.type \in IssuingTypes
      /\ \E x \in IssuedBy(ev') : x.denom = b.denom

C02_SealedFrozen_Step ==
  \A b \in st.batches :
    ~b.open => TotalSup(st', b.key) = TotalSup(st, b.key)

C02_OnlyIssuers_Prop  == [][C02_OnlyIssuers_Step]_vars
C02_SealedFrozen_Prop == [][C02_SealedFrozen_Step]_vars

\* ================================================================== C04
\* Retirement and cancellation are permanent (rows may not disappear either:
\* a missing row counts as zero)
C04_Permanence_Step ==
  /\ \A r \in st.bal : BalOf(st', r.a, r.bk).r >= r.r
  /\ \A r \in st.supply : /\ SupplyOrZero(st', r.bk).r >= r.r
                          /\ SupplyOrZero(st', r.bk).c >= r.c

C04_Permanence_Prop == [][C04_Permanence_Step]_vars


\* ================================================================== C03
\* Ownership safety: holdings shrink only by the owner's signature or a paid fill
Sg == ev'.signers
Holding(s, a, bk) == BalOf(s, a, bk).t + BalOf(s, a, bk).e
AllAccts == {r.a : r \in st.bal} \cup {r.a : r \in st.coins}

\* quantity of a's orders for batch bk filled by the (successful) BuyDirect ev'
FilledQty(a, bk) ==
  SumOver({i \in DOMAIN ev'.m.orders :
             /\ HasOrder(st, ev'.m.orders[i].id)
             /\ OrderById(st, ev'.m.orders[i].id).seller = a
             /\ OrderById(st, ev'.m.orders[i].id).bk = bk},
          LAMBDA i : ev'.m.orders[i].qty)

C03_Credits_Step ==
  \A r \in st.bal :
    r.a \notin Sg =>
      IF EvIs("BuyDirect")
      THEN /\ BalOf(st', r.a, r.bk).t >= r.t
           /\ BalOf(st', r.a, r.bk).e = r.e - FilledQty(r.a, r.bk)
      ELSE IF IsBlockEv(ev')
      THEN /\ Holding(st', r.a, r.bk) = Holding(st, r.a, r.bk)
           /\ BalOf(st', r.a, r.bk).e <= r.e
      \* any other message: neither form of the holding shrinks (the only moves between
      \* tradable and escrow a non-signer may see are the two above)
      ELSE /\ BalOf(st', r.a, r.bk).t >= r.t
           /\ BalOf(st', r.a, r.bk).e >= r.e

C03_Coins_Step ==
  \A r \in st.coins :
    r.a \notin Sg =>
      \/ CoinBal(st', r.a, r.d) >= r.n
      \/ r.a = ModFeePool /\ EvIs("GovSendFromFeePool") /\ Gov \in Sg

\* "... and it is paid for them in the order's ask denomination": under a BuyDirect a
\* non-signer gains coins only in the ask denomination of one of its own orders that the
\* message names (the fee pool collects the fees)
AskDenomsOf(a) ==
  {MarketById(st, OrderById(st, ev'.m.orders[i].id).mid).denom :
     i \in {j \in DOMAIN ev'.m.orders :
              /\ HasOrder(st, ev'.m.orders[j].id)
              /\ OrderById(st, ev'.m.orders[j].id).seller = a
              /\ HasMarketId(st, OrderById(st, ev'.m.orders[j].id).mid)}}

C03_PaidInAskDenom_Step ==
  EvIs("BuyDirect") =>
    \A r \in st'.coins :
      (r.a \notin Sg /\ r.a # ModFeePool /\ r.n > CoinBal(st, r.a, r.d)) => r.d \in AskDenomsOf(r.a)

\* ... judged against what the SELLER asked for, not against the market column the code copied: an order
\* created by Sell carries exactly the batch, quantity, ask denomination, ask amount and auto-retire flag of
\* its entry and belongs to the signer; afterwards only an update by its seller changes the ask (seeded
\* change C03-i stores the first entry's market for a later entry of the same batch)
OrderAskDenom(s, o) == IF HasMarketId(s, o.mid) THEN MarketById(s, o.mid).denom ELSE "?"
C03_AskAsRequested_Step ==
  /\ EvIs("Sell") =>
       /\ "sell_order_ids" \in DOMAIN ev'.resp
       /\ Len(ev'.resp.sell_order_ids) = Len(ev'.m.orders)
       /\ \A i \in DOMAIN ev'.m.orders :
            LET e == ev'.m.orders[i]  id == ev'.resp.sell_order_ids[i] IN
            /\ HasOrder(st', id) /\ ~HasOrder(st, id)
            /\ LET o == OrderById(st', id) IN
               /\ o.seller = ev'.m.seller /\ o.qty = e.qty /\ o.ask = e.ask_amt /\ o.dar = e.dar
               /\ OrderAskDenom(st', o) = e.ask_denom
               /\ HasBatchDenom(st', e.denom) /\ BatchByDenom(st', e.denom).key = o.bk
  /\ \A o \in st'.orders :
       HasOrder(st, o.id) =>
         LET old == OrderById(st, o.id)
             ups == IF EvIs("UpdateSellOrders")
                    THEN {i \in DOMAIN ev'.m.updates : ev'.m.updates[i].id = o.id}
                    ELSE {}
         IN /\ o.seller = old.seller /\ o.bk = old.bk
            /\ IF ups = {} THEN o.ask = old.ask /\ OrderAskDenom(st', o) = OrderAskDenom(st, old) /\ o.dar = old.dar
               ELSE \E i \in ups : o.ask = ev'.m.updates[i].ask_amt /\ OrderAskDenom(st', o) = ev'.m.updates[i].ask_denom
                                      /\ o.dar = ev'.m.updates[i].dar
C03_AskAsRequested_Prop == [][C03_AskAsRequested_Step]_vars

C03_Block_Step == IsBlockEv(ev') => st'.coins = st.coins /\ st'.csupply = st.csupply

C03_Credits_Prop == [][C03_Credits_Step]_vars
C03_Coins_Prop   == [][C03_Coins_Step]_vars
C03_Block_Prop   == [][C03_Block_Step]_vars
C03_PaidInAskDenom_Prop == [][C03_PaidInAskDenom_Step]_vars

\* ================================================================== C05
C05_Backed ==
  \A k \in st.baskets : CoinSupply(st, k.denom) = SumBBalBasket(st, k.id)

C05_PutMints_Step ==
  EvIs("Put") =>
    LET m == ev'.m
        amt == SumAmt(m.credits)
        d == m.basket_denom
    IN /\ CoinBal(st', m.owner, d) = CoinBal(st, m.owner, d) + amt
       /\ CoinSupply(st', d) = CoinSupply(st, d) + amt
       /\ ev'.resp = [amount_received |-> amt]
       /\ HasBasket(st, d)
       /\ SumBBalBasket(st', BasketByDenom(st, d).id)
            = SumBBalBasket(st, BasketByDenom(st, d).id) + amt

C05_TakeBurns_Step ==
  EvIs("Take") =>
    LET m == ev'.m
        d == m.basket_denom
    IN /\ CoinBal(st', m.owner, d) = CoinBal(st, m.owner, d) - m.amt
       /\ CoinSupply(st', d) = CoinSupply(st, d) - m.amt
       /\ "credits" \in DOMAIN ev'.resp
       /\ SumAmt(ev'.resp.credits) = m.amt
       /\ HasBasket(st, d)
       /\ SumBBalBasket(st', BasketByDenom(st, d).id)
            = SumBBalBasket(st, BasketByDenom(st, d).id) - m.amt

\* basket tokens appear and disappear only through Put and Take
C05_OnlyPutTake_Step ==
  \A k \in st.baskets :
    CoinSupply(st', k.denom) # CoinSupply(st, k.denom) =>
      ev'.ok /\ ev'.type \in {"Put", "Take"} /\ ev'.m.basket_denom = k.denom

C05_PutMints_Prop    == [][C05_PutMints_Step]_vars
C05_TakeBurns_Prop   == [][C05_TakeBurns_Step]_vars
C05_OnlyPutTake_Prop == [][C05_OnlyPutTake_Step]_vars

\* ================================================================== C06
OrderQty(s, a, bk) ==
  SumOver({o \in s.orders : o.seller = a /\ o.bk = bk}, LAMBDA o : o.qty)

C06_Escrow ==
  /\ \A r \in st.bal : r.e = OrderQty(st, r.a, r.bk)
  /\ \A o \in st.orders : HasBal(st, o.seller, o.bk)

C06_OrderWellFormed ==
  \A o \in st.orders :
    /\ o.qty > 0 /\ o.ask > 0
    /\ HasBatchKey(st, o.bk)
    /\ HasMarketId(st, o.mid)

\* the ask denom of an order written by this step was allowed in the pre-state
C06_DenomAllowedAtWrite_Step ==
  \A o \in st'.orders :
    LET new     == ~HasOrder(st, o.id)
        updated == EvIs("UpdateSellOrders") /\
                   \E i \in DOMAIN ev'.m.updates : ev'.m.updates[i].id = o.id
    IN /\ (new \/ updated) =>
            HasMarketId(st', o.mid) /\ DenomAllowed(st, MarketById(st', o.mid).denom)
       /\ (~new /\ ~updated) =>
            \* nothing else may move an order to another market or reprice it
            /\ o.mid = OrderById(st, o.id).mid
            /\ o.ask = OrderById(st, o.id).ask

C06_DenomAllowedAtWrite_Prop == [][C06_DenomAllowedAtWrite_Step]_vars

\* ================================================================== C07
\* BuyDirect settles exactly.  All clauses are about a successful BuyDirect ev'
\* and are computed from the PRE-state orders, fee parameters and the request.
BuyEntries == DOMAIN ev'.m.orders
BuyEntry(i) == ev'.m.orders[i]
SoldOrder(i) == OrderById(st, BuyEntry(i).id)
BuyDenom(i) == MarketById(st, SoldOrder(i).mid).denom
Buyer == ev'.m.buyer
BRate == st.feeparams.buyer
SRate == st.feeparams.seller
\* exact cost of entry i as a fraction N(i) / D  (D = unit denominator)
CostN(i) == BuyEntry(i).qty * st.unit.un * SoldOrder(i).ask
CostD == st.unit.ud

C07_Orders_Step ==
  EvIs("BuyDirect") =>
    /\ \A i \in BuyEntries :
         /\ HasOrder(st, BuyEntry(i).id)
         /\ HasMarketId(st, SoldOrder(i).mid)
         /\ BuyEntry(i).bid_denom = BuyDenom(i)
         /\ BuyEntry(i).bid_amt >= SoldOrder(i).ask
         /\ BuyEntry(i).dar => SoldOrder(i).dar
         /\ SoldOrder(i).seller # Buyer
    /\ \A o \in st.orders :
         LET q == SumOver({i \in BuyEntries : BuyEntry(i).id = o.id}, LAMBDA i : BuyEntry(i).qty) IN
         IF q = 0 THEN o \in st'.orders
         ELSE IF q = o.qty THEN ~HasOrder(st', o.id)
         ELSE q < o.qty /\ HasOrder(st', o.id) /\ OrderById(st', o.id) = [o EXCEPT !.qty = @ - q]
    /\ \A o \in st'.orders : HasOrder(st, o.id)

C07_Credits_Step ==
  EvIs("BuyDirect") =>
    LET keys == {SoldOrder(i).bk : i \in BuyEntries}
        got(bk, retired) == SumOver({i \in BuyEntries : SoldOrder(i).bk = bk /\ (~BuyEntry(i).dar) = retired},
                                     LAMBDA i : BuyEntry(i).qty)
    IN /\ \A bk \in keys :
            /\ BalOf(st', Buyer, bk).t = BalOf(st, Buyer, bk).t + got(bk, FALSE)
            /\ BalOf(st', Buyer, bk).r = BalOf(st, Buyer, bk).r + got(bk, TRUE)
            /\ BalOf(st', Buyer, bk).e = BalOf(st, Buyer, bk).e
            /\ SupplyOrZero(st', bk).t = SupplyOrZero(st, bk).t - got(bk, TRUE)
            /\ SupplyOrZero(st', bk).r = SupplyOrZero(st, bk).r + got(bk, TRUE)
            /\ SupplyOrZero(st', bk).c = SupplyOrZero(st, bk).c
       /\ \A r \in st.bal :
            LET f == IF r.a = Buyer THEN 0 ELSE FilledQty(r.a, r.bk) IN
            (r.a # Buyer \/ r.bk \notin keys) =>
               BalOf(st', r.a, r.bk) = [r EXCEPT !.e = @ - f]
       /\ \A r \in st'.bal : HasBal(st, r.a, r.bk) \/ (r.a = Buyer /\ r.bk \in keys)

C07_Coins_Step ==
  EvIs("BuyDirect") =>
    LET denoms  == {BuyDenom(i) : i \in BuyEntries}
        sellers == {SoldOrder(i).seller : i \in BuyEntries}
        bn == RNum(BRate)  bd == RDen(BRate)
        sn == RNum(SRate)  sd == RDen(SRate)
        gain(a, d) == CoinBal(st', a, d) - CoinBal(st, a, d)
    IN \A d \in denoms :
         LET E    == {i \in BuyEntries : BuyDenom(i) = d}
             N    == SumOver(E, LAMBDA i : CostN(i))
             loss == CoinBal(st, Buyer, d) - CoinBal(st', Buyer, d)
             pool == IF d = "uregen" THEN CoinSupply(st, d) - CoinSupply(st', d)
                     ELSE gain(ModFeePool, d)
             sellerGain == SumOver(sellers, LAMBDA a : gain(a, d))
         IN
         \* each seller: quantity x ask minus the seller fee, within one unit per fill
         /\ \A a \in sellers :
              LET Ea == {i \in E : SoldOrder(i).seller = a}
                  Na == SumOver(Ea, LAMBDA i : CostN(i))
                  k  == Cardinality(Ea)
              IN /\ gain(a, d) * CostD * sd <= Na * (sd - sn)
                 /\ (gain(a, d) + k) * CostD * sd >= Na * (sd - sn)
         \* fee pool (or, for uregen, the burnt supply): buyer fee + seller fee
         /\ pool * CostD * bd * sd <= N * (bn * sd + sn * bd)
         /\ (pool + Cardinality(E)) * CostD * bd * sd >= N * (bn * sd + sn * bd)
         /\ (d = "uregen") => gain(ModFeePool, d) = 0
         /\ (d # "uregen") => CoinSupply(st', d) = CoinSupply(st, d)
         \* the buyer pays exactly what the others receive, never more than the exact total
         /\ loss = sellerGain + pool
         /\ loss * CostD * bd <= N * (bd + bn)
         \* the stated max fee covers the truncated buyer fee of every fill
         /\ \A i \in E :
              (IF BuyEntry(i).maxfee.set THEN BuyEntry(i).maxfee.amt ELSE 0) * CostD * bd
                 + CostD * bd > CostN(i) * bn
              \* maxfee >= floor(fee)  <=>  maxfee + 1 > fee

C07_NoOtherCoins_Step ==
  EvIs("BuyDirect") =>
    LET denoms  == {BuyDenom(i) : i \in BuyEntries}
        parties == {SoldOrder(i).seller : i \in BuyEntries} \cup {Buyer, ModFeePool}
    IN /\ \A r \in st.coins : (r.a \notin parties \/ r.d \notin denoms) => r \in st'.coins
       /\ \A r \in st'.coins : (r.a \notin parties \/ r.d \notin denoms) => r \in st.coins
       /\ \A r \in st.csupply : r.d \notin denoms => r \in st'.csupply
       /\ \A r \in st'.csupply : r.d \notin denoms => r \in st.csupply

C07_Orders_Prop       == [][C07_Orders_Step]_vars
C07_Credits_Prop      == [][C07_Credits_Step]_vars
C07_Coins_Prop        == [][C07_Coins_Step]_vars
C07_NoOtherCoins_Prop == [][C07_NoOtherCoins_Step]_vars

\* ================================================================== C11
C11_PutOnlyIf_Step ==
  EvIs("Put") =>
    /\ HasBasket(st, ev'.m.basket_denom)
    /\ \A i \in DOMAIN ev'.m.credits :
         LET e == ev'.m.credits[i] IN
         /\ HasBatchDenom(st, e.denom)
         /\ BatchResolvable(st, BatchByDenom(st, e.denom))
         /\ PutAdmissible(st, BasketByDenom(st, ev'.m.basket_denom), BatchByDenom(st, e.denom))

\* the documented precondition of Put: basket exists, every entry admissible
\* and positive, and the owner holds the (cumulated) amounts
PrePut(s, m) ==
  /\ Len(m.credits) > 0
  /\ HasBasket(s, m.basket_denom)
  /\ \A i \in DOMAIN m.credits :
       LET e == m.credits[i] IN
       /\ e.amt > 0
       /\ HasBatchDenom(s, e.denom)
       /\ BatchResolvable(s, BatchByDenom(s, e.denom))
       /\ PutAdmissible(s, BasketByDenom(s, m.basket_denom), BatchByDenom(s, e.denom))
       /\ BalOf(s, m.owner, BatchByDenom(s, e.denom).key).t >=
            SumOver({j \in DOMAIN m.credits : m.credits[j].denom = e.denom},
                    LAMBDA j : m.credits[j].amt)

C11_PutIf_Step ==
  (ev'.type = "Put" /\ ev'.dom = "spec" /\ WellFormed(ev'.m) /\ PrePut(st, ev'.m)) => ev'.ok

\* On traces the must-succeed clauses additionally require that the specification's own handler
\* accepts the message: if a precondition written here were weaker than the handler (an error of
\* this file, which TLC rules out only for the exhaustive configurations), the clause is silent
\* instead of blaming the code.  lib/gen_traceprops.py wraps <name>_TStep when it exists.
SpecAccepts(s, m) == \E r \in ApplySet(s, m) : r.ok
C11_PutIf_TStep ==
  (ev'.type = "Put" /\ ev'.dom = "spec" /\ WellFormed(ev'.m) /\ PrePut(st, ev'.m) /\ SpecAccepts(st, ev'.m)) => ev'.ok

\* "earliest start date" is the start date of the BATCH (the basket row carries a
\* copy of it, which must agree: C11_BasketDatesMatchBatches)
C11_BasketDatesMatchBatches ==
  \A x \in st.bbal : HasBatchDenom(st, x.denom) => x.start = BatchByDenom(st, x.denom).start

C11_OldestFirst_Step ==
  EvIs("Take") =>
    LET cs  == ev'.resp.credits
        k   == BasketByDenom(st, ev'.m.basket_denom)
        row(d) == CHOOSE x \in st.bbal : x.bid = k.id /\ x.denom = d
        has(d) == \E x \in st.bbal : x.bid = k.id /\ x.denom = d
        startOf(d) == IF HasBatchDenom(st, d) THEN BatchByDenom(st, d).start ELSE row(d).start
        n   == Len(cs)
    IN /\ n > 0
       /\ \A i \in 1..n : has(cs[i].denom) /\ cs[i].amt > 0 /\ cs[i].amt <= row(cs[i].denom).amt
       \* oldest first along the released list
       /\ \A i, j \in 1..n : i < j => startOf(cs[i].denom) <= startOf(cs[j].denom)
       \* every batch before the last is drained completely
       /\ \A i \in 1..(n - 1) : cs[i].amt = row(cs[i].denom).amt
       \* nothing older than a touched batch stays behind
       /\ \A x \in st'.bbal : \A i \in 1..n :
            (x.bid = k.id /\ x.denom # cs[n].denom) => startOf(x.denom) >= startOf(cs[i].denom)
       \* the basket rows change exactly by what was released
       /\ \A x \in st.bbal :
            LET rel == SumOver({i \in 1..n : x.bid = k.id /\ cs[i].denom = x.denom}, LAMBDA i : cs[i].amt) IN
            IF rel = 0 THEN x \in st'.bbal
            ELSE IF rel = x.amt THEN ~HasBBal(st', x.bid, x.denom)
            ELSE HasBBal(st', x.bid, x.denom) /\ BBalOf(st', x.bid, x.denom) = [x EXCEPT !.amt = @ - rel]

C11_AutoRetire_Step ==
  EvIs("Take") =>
    LET k  == BasketByDenom(st, ev'.m.basket_denom)
        cs == ev'.resp.credits
        retire == ev'.m.retire
    IN /\ (~k.dar) => retire
       /\ \A i \in DOMAIN cs :
            LET bk == BatchByDenom(st, cs[i].denom).key
                got == SumOver({j \in DOMAIN cs : cs[j].denom = cs[i].denom}, LAMBDA j : cs[j].amt)
            IN IF retire
               THEN /\ BalOf(st', ev'.m.owner, bk).r = BalOf(st, ev'.m.owner, bk).r + got
                    /\ BalOf(st', ev'.m.owner, bk).t = BalOf(st, ev'.m.owner, bk).t
                    /\ SupplyOrZero(st', bk).r = SupplyOrZero(st, bk).r + got
                    /\ SupplyOrZero(st', bk).t = SupplyOrZero(st, bk).t - got
               ELSE /\ BalOf(st', ev'.m.owner, bk).t = BalOf(st, ev'.m.owner, bk).t + got
                    /\ BalOf(st', ev'.m.owner, bk).r = BalOf(st, ev'.m.owner, bk).r
                    /\ SupplyOrZero(st', bk) = SupplyOrZero(st, bk)

C11_PutOnlyIf_Prop   == [][C11_PutOnlyIf_Step]_vars
C11_PutIf_Prop       == [][C11_PutIf_Step]_vars
C11_OldestFirst_Prop == [][C11_OldestFirst_Step]_vars
C11_AutoRetire_Prop  == [][C11_AutoRetire_Step]_vars

\* ================================================================== C12
C12_Expiry_Step ==
  IsBlockEv(ev') =>
    LET T == ev'.m.t
        gone == {o \in st.orders : o.exp.set /\ o.exp.t <= T}
    IN /\ ev'.ok
       /\ \A o \in st'.orders : ~o.exp.set \/ o.exp.t > T
       /\ st'.orders = st.orders \ gone
       /\ \A r \in st.bal :
            LET q == SumOver({o \in gone : o.seller = r.a /\ o.bk = r.bk}, LAMBDA o : o.qty) IN
            BalOf(st', r.a, r.bk) = [r EXCEPT !.e = @ - q, !.t = @ + q]
       /\ \A r \in st'.bal : HasBal(st, r.a, r.bk)
       /\ OnlyChanged({"now", "orders", "bal"})

C12_NoBuyExpired_Step ==
  EvIs("BuyDirect") =>
    \A i \in DOMAIN ev'.m.orders :
      HasOrder(st, ev'.m.orders[i].id) =>
        LET o == OrderById(st, ev'.m.orders[i].id) IN ~o.exp.set \/ o.exp.t > st.now

\* no open order is already expired with respect to the current block time
C12_NoneExpired == \A o \in st.orders : ~o.exp.set \/ o.exp.t > st.now

\* an order carries exactly the expiration its seller asked for: a new order gets
\* the expiration of its request entry, an update without a new expiration keeps
\* the old one, and no other step changes an expiration (so an order submitted
\* without expiration can never be removed by block processing)
C12_ExpirationAsRequested_Step ==
  /\ EvIs("Sell") =>
       /\ "sell_order_ids" \in DOMAIN ev'.resp
       /\ Len(ev'.resp.sell_order_ids) = Len(ev'.m.orders)
       /\ \A i \in DOMAIN ev'.m.orders :
            /\ HasOrder(st', ev'.resp.sell_order_ids[i])
            /\ OrderById(st', ev'.resp.sell_order_ids[i]).exp = ev'.m.orders[i].exp
  /\ \A o \in st'.orders :
       HasOrder(st, o.id) =>
         LET old == OrderById(st, o.id)
             ups == IF EvIs("UpdateSellOrders")
                    THEN {i \in DOMAIN ev'.m.updates : ev'.m.updates[i].id = o.id /\ ev'.m.updates[i].exp.set}
                    ELSE {}
         IN IF ups = {} THEN o.exp = old.exp
            ELSE \E i \in ups : o.exp = ev'.m.updates[i].exp

C12_Expiry_Prop       == [][C12_Expiry_Step]_vars
C12_ExpirationAsRequested_Prop == [][C12_ExpirationAsRequested_Step]_vars
C12_NoBuyExpired_Prop == [][C12_NoBuyExpired_Step]_vars


\* ================================================================== C08
\* Only the required role holder can change an entity; sealed batches stay sealed
GovTypes == {"AddCreditType", "AddClassCreator", "RemoveClassCreator", "SetClassCreatorAllowlist",
             "UpdateClassFee", "AddAllowedBridgeChain", "RemoveAllowedBridgeChain",
             "UpdateBasketFee", "UpdateDateCriteria", "AddAllowedDenom", "RemoveAllowedDenom",
             "GovSetFeeParams", "GovSendFromFeePool"}

HasRole(pre, e) ==
  LET m == e.m
      S == e.signers
  IN
  CASE e.type \in GovTypes -> Gov \in S
    [] e.type = "CreateClass" -> pre.allowlist => \E a \in S : a \in pre.creators
    [] e.type = "CreateProject" ->
         HasClassId(pre, m.class_id) /\ \E a \in S : IsIssuer(pre, ClassById(pre, m.class_id).key, a)
    [] e.type = "CreateBatch" ->
         HasProjectId(pre, m.project_id) /\
         \E a \in S : IsIssuer(pre, ProjectById(pre, m.project_id).ck, a)
    [] e.type = "SealBatch" ->
         HasBatchDenom(pre, m.batch_denom) /\ BatchByDenom(pre, m.batch_denom).issuer \in S
    [] e.type \in {"MintBatchCredits", "UpdateBatchMetadata"} ->
         /\ HasBatchDenom(pre, m.batch_denom)
         /\ BatchByDenom(pre, m.batch_denom).issuer \in S
         /\ BatchByDenom(pre, m.batch_denom).open
    [] e.type = "BridgeReceive" ->
         /\ HasClassId(pre, m.class_id)
         /\ LET c == ClassById(pre, m.class_id) IN
            IF \E x \in pre.contracts : x.ck = c.key /\ x.contract = m.origin.contract
            THEN LET x == CHOOSE y \in pre.contracts : y.ck = c.key /\ y.contract = m.origin.contract IN
                 HasBatchKey(pre, x.bk) /\ BatchByKey(pre, x.bk).issuer \in S /\ BatchByKey(pre, x.bk).open
            ELSE \E a \in S : IsIssuer(pre, c.key, a)
    [] e.type \in {"UpdateClassAdmin", "UpdateClassIssuers", "UpdateClassMetadata"} ->
         HasClassId(pre, m.class_id) /\ ClassById(pre, m.class_id).admin \in S
    [] e.type \in {"UpdateProjectAdmin", "UpdateProjectMetadata"} ->
         HasProjectId(pre, m.project_id) /\ ProjectById(pre, m.project_id).admin \in S
    [] e.type = "UpdateCurator" ->
         HasBasket(pre, m.denom) /\ BasketByDenom(pre, m.denom).curator \in S
    [] e.type = "CancelSellOrder" ->
         HasOrder(pre, m.id) /\ OrderById(pre, m.id).seller \in S
    [] e.type = "UpdateSellOrders" ->
         \A i \in DOMAIN m.updates :
           HasOrder(pre, m.updates[i].id) /\ OrderById(pre, m.updates[i].id).seller \in S
    [] e.type = "Unimplemented" -> FALSE
    [] OTHER -> TRUE

C08_Authorised_Step == ev'.ok => HasRole(st, ev')

\* rows of table f not selected by P are identical before and after
RowsSameExcept(f, P(_)) ==
  /\ \A r \in st[f]  : ~P(r) => r \in st'[f]
  /\ \A r \in st'[f] : ~P(r) => r \in st[f]

\* the one row selected by P changes only in the fields of F
RowOnlyFields(f, P(_), F) ==
  \A r \in st[f] : P(r) =>
    \E q \in st'[f] : P(q) /\ \A x \in DOMAIN r : x \notin F => q[x] = r[x]

C08_Footprint_Step ==
  ev'.ok =>
  LET m == ev'.m
      T == ev'.type
  IN
  CASE T = "UpdateClassAdmin" ->
         /\ OnlyChanged({"classes"}) /\ RowsSameExcept("classes", LAMBDA r : r.id = m.class_id)
         /\ RowOnlyFields("classes", LAMBDA r : r.id = m.class_id, {"admin"})
    [] T = "UpdateClassMetadata" ->
         /\ OnlyChanged({"classes"}) /\ RowsSameExcept("classes", LAMBDA r : r.id = m.class_id)
         /\ RowOnlyFields("classes", LAMBDA r : r.id = m.class_id, {"meta"})
    [] T = "UpdateClassIssuers" ->
         /\ OnlyChanged({"issuers"})
         /\ RowsSameExcept("issuers", LAMBDA r : r.ck = ClassById(st, m.class_id).key)
    [] T = "UpdateProjectAdmin" ->
         /\ OnlyChanged({"projects"}) /\ RowsSameExcept("projects", LAMBDA r : r.id = m.project_id)
         /\ RowOnlyFields("projects", LAMBDA r : r.id = m.project_id, {"admin"})
    [] T = "UpdateProjectMetadata" ->
         /\ OnlyChanged({"projects"}) /\ RowsSameExcept("projects", LAMBDA r : r.id = m.project_id)
         /\ RowOnlyFields("projects", LAMBDA r : r.id = m.project_id, {"meta"})
    [] T = "UpdateBatchMetadata" ->
         /\ OnlyChanged({"batches"}) /\ RowsSameExcept("batches", LAMBDA r : r.denom = m.batch_denom)
         /\ RowOnlyFields("batches", LAMBDA r : r.denom = m.batch_denom, {"meta"})
    [] T = "SealBatch" ->
         /\ OnlyChanged({"batches"}) /\ RowsSameExcept("batches", LAMBDA r : r.denom = m.batch_denom)
         /\ RowOnlyFields("batches", LAMBDA r : r.denom = m.batch_denom, {"open"})
    [] T = "MintBatchCredits" ->
         /\ OnlyChanged({"bal", "supply", "origintx"})
         /\ RowsSameExcept("bal", LAMBDA r : r.bk = BatchByDenom(st, m.batch_denom).key)
         /\ RowsSameExcept("supply", LAMBDA r : r.bk = BatchByDenom(st, m.batch_denom).key)
    [] T = "CreateProject" -> OnlyChanged({"projects", "pseq", "seq"}) /\ st.projects \subseteq st'.projects
    \* creating a class changes no existing class and no existing class's issuer list (seeded change C08-j files
    \* the new issuers under the per-credit-type sequence number, i.e. under another class's key)
    [] T = "CreateClass" ->
         /\ OnlyChanged({"classes", "issuers", "cseq", "seq", "coins", "csupply"})
         /\ st.classes \subseteq st'.classes /\ st.issuers \subseteq st'.issuers
         /\ \A r \in st'.issuers \ st.issuers : \A c \in st.classes : r.ck # c.key
    [] T = "CreateBatch" ->
         /\ OnlyChanged({"batches", "bseq", "seq", "bal", "supply", "origintx", "contracts"})
         /\ st.batches \subseteq st'.batches /\ st.bal \subseteq st'.bal
         /\ st.supply \subseteq st'.supply /\ st.contracts \subseteq st'.contracts
    [] T = "UpdateCurator" ->
         /\ OnlyChanged({"baskets"}) /\ RowsSameExcept("baskets", LAMBDA r : r.denom = m.denom)
         /\ RowOnlyFields("baskets", LAMBDA r : r.denom = m.denom, {"curator"})
    [] T = "UpdateDateCriteria" ->
         /\ OnlyChanged({"baskets"}) /\ RowsSameExcept("baskets", LAMBDA r : r.denom = m.denom)
         /\ RowOnlyFields("baskets", LAMBDA r : r.denom = m.denom, {"crit"})
    [] T = "UpdateBasketFee" -> OnlyChanged({"basketfee"})
    [] T = "UpdateClassFee" -> OnlyChanged({"classfee"})
    [] T = "SetClassCreatorAllowlist" -> OnlyChanged({"allowlist"})
    [] T = "AddClassCreator" -> OnlyChanged({"creators"}) /\ st'.creators = st.creators \cup {m.creator}
    [] T = "RemoveClassCreator" -> OnlyChanged({"creators"}) /\ st'.creators = st.creators \ {m.creator}
    [] T = "AddCreditType" -> OnlyChanged({"ctypes"}) /\ st.ctypes \subseteq st'.ctypes
                              /\ \A t \in st'.ctypes \ st.ctypes : t.abbr = m.abbr
    [] T = "AddAllowedBridgeChain" -> OnlyChanged({"chains"}) /\ st'.chains = st.chains \cup {Lower(m.chain)}
    [] T = "RemoveAllowedBridgeChain" -> OnlyChanged({"chains"}) /\ st'.chains = st.chains \ {Lower(m.chain)}
    [] T = "AddAllowedDenom" -> OnlyChanged({"denoms"}) /\ st.denoms \subseteq st'.denoms
                                /\ \A d \in st'.denoms \ st.denoms : d.bank = m.bank
    [] T = "RemoveAllowedDenom" -> OnlyChanged({"denoms"})
                                   /\ st'.denoms = {d \in st.denoms : d.bank # m.denom}
    [] T = "GovSetFeeParams" -> OnlyChanged({"feeparams"})
    [] T = "GovSendFromFeePool" ->
         /\ OnlyChanged({"coins"})
         /\ RowsSameExcept("coins", LAMBDA r : r.d = m.denom /\ r.a \in {ModFeePool, m.recipient})
    [] T = "CancelSellOrder" ->
         /\ OnlyChanged({"orders", "bal"})
         /\ st'.orders = {o \in st.orders : o.id # m.id}
         /\ RowsSameExcept("bal", LAMBDA r : r.a = OrderById(st, m.id).seller /\ r.bk = OrderById(st, m.id).bk)
    [] T = "UpdateSellOrders" ->
         /\ OnlyChanged({"orders", "bal", "markets", "seq"})
         /\ RowsSameExcept("orders", LAMBDA o : \E i \in DOMAIN m.updates : m.updates[i].id = o.id)
         /\ RowsSameExcept("bal", LAMBDA r : r.a \in ev'.signers)
         /\ st.markets \subseteq st'.markets
    [] OTHER -> TRUE

\* A successful role-, parameter- or attribute-changing message has the EFFECT it names.
\* Without it "authorisation tracks role changes", "the basket's date criterion incl.
\* governance updates of it", "allowed-chain list changes", "accepted parameter values"
\* would be judged against a stored column that the update may not have written.
RangeOf(q) == {q[i] : i \in DOMAIN q}
FeeAsStored(f) == IF f.set /\ f.amt > 0 THEN f ELSE NoCoin
C08_Effect_Step ==
  ev'.ok =>
  LET m == ev'.m
      T == ev'.type
  IN
  CASE T = "UpdateClassAdmin"    -> HasClassId(st', m.class_id) /\ ClassById(st', m.class_id).admin = Acct(m.new_admin)
    [] T = "UpdateClassMetadata" -> HasClassId(st', m.class_id) /\ ClassById(st', m.class_id).meta = m.meta
    [] T = "CreateClass" ->
         /\ "class_id" \in DOMAIN ev'.resp /\ HasClassId(st', ev'.resp.class_id) /\ ~HasClassId(st, ev'.resp.class_id)
         /\ LET c == ClassById(st', ev'.resp.class_id) IN
            /\ c.admin = Acct(m.admin) /\ c.ct = m.ct /\ c.meta = m.meta
            /\ {r.a : r \in {x \in st'.issuers : x.ck = c.key}} = {Acct(x) : x \in RangeOf(m.issuers)}
    [] T = "UpdateClassIssuers"  ->
         LET ck == ClassById(st, m.class_id).key IN
         {r.a : r \in {x \in st'.issuers : x.ck = ck}}
           = ({r.a : r \in {x \in st.issuers : x.ck = ck}} \ RangeOf(m.remove)) \cup RangeOf(m.add)
    [] T = "UpdateProjectAdmin"    -> HasProjectId(st', m.project_id) /\ ProjectById(st', m.project_id).admin = Acct(m.new_admin)
    [] T = "UpdateProjectMetadata" -> HasProjectId(st', m.project_id) /\ ProjectById(st', m.project_id).meta = m.meta
    [] T = "UpdateBatchMetadata"   -> HasBatchDenom(st', m.batch_denom) /\ BatchByDenom(st', m.batch_denom).meta = m.meta
    [] T = "SealBatch"             -> HasBatchDenom(st', m.batch_denom) /\ ~BatchByDenom(st', m.batch_denom).open
    [] T = "UpdateCurator"         -> HasBasket(st', m.denom) /\ BasketByDenom(st', m.denom).curator = Acct(m.new_curator)
    [] T = "UpdateDateCriteria"    -> HasBasket(st', m.denom) /\ BasketByDenom(st', m.denom).crit = m.crit
    [] T = "BasketCreate" ->
         /\ HasBasket(st', ev'.resp.basket_denom)
         /\ LET k == BasketByDenom(st', ev'.resp.basket_denom) IN
            /\ k.crit = m.crit /\ k.dar = m.dar /\ k.curator = m.curator /\ k.ct = m.ct /\ k.name = m.name
            /\ {x.cid : x \in {y \in st'.bclasses : y.bid = k.id}} = RangeOf(m.classes)
    [] T = "UpdateBasketFee"          -> st'.basketfee = FeeAsStored(m.fee)
    [] T = "UpdateClassFee"           -> st'.classfee = FeeAsStored(m.fee)
    [] T = "SetClassCreatorAllowlist" -> st'.allowlist = m.enabled
    [] T = "GovSetFeeParams"          -> st'.feeparams = [buyer |-> m.buyer, seller |-> m.seller]
    [] T = "AddCreditType" -> \E t \in st'.ctypes : t.abbr = m.abbr /\ t.name = m.name /\ t.unit = m.unit
    [] T = "AddAllowedDenom" -> \E d \in st'.denoms : d.bank = m.bank /\ d.display = m.display /\ d.exp = m.exp
    [] OTHER -> TRUE

C08_SealedStaysSealed_Step ==
  \A b \in st.batches :
    ~b.open =>
      /\ \E q \in st'.batches : q.key = b.key /\ q.denom = b.denom /\ ~q.open /\ q.meta = b.meta
      /\ IssuedOf(gh', b.denom) = IssuedOf(gh, b.denom)

\* the same clause under the properties whose text depends on it
C11_CriteriaAsSet_Step == (ev'.type \in {"UpdateDateCriteria", "BasketCreate"}) => C08_Effect_Step
C13_ChainsAsSet_Step   == (ev'.type \in {"AddAllowedBridgeChain", "RemoveAllowedBridgeChain"}) => C08_Footprint_Step
C18_ParamsAsSet_Step   ==
  (ev'.type \in {"UpdateBasketFee", "UpdateClassFee", "SetClassCreatorAllowlist", "GovSetFeeParams",
                 "AddAllowedDenom", "RemoveAllowedDenom", "AddCreditType", "AddClassCreator", "RemoveClassCreator"})
    => (C08_Effect_Step /\ C08_Footprint_Step)
C11_CriteriaAsSet_Prop == [][C11_CriteriaAsSet_Step]_vars
C13_ChainsAsSet_Prop   == [][C13_ChainsAsSet_Step]_vars
C18_ParamsAsSet_Prop   == [][C18_ParamsAsSet_Step]_vars
C08_Effect_Prop            == [][C08_Effect_Step]_vars
C08_Authorised_Prop        == [][C08_Authorised_Step]_vars
C08_Footprint_Prop         == [][C08_Footprint_Step]_vars
C08_SealedStaysSealed_Prop == [][C08_SealedStaysSealed_Step]_vars

\* ================================================================== C09
\* A model of the module's own genesis validation (x/ecocredit/genesis.ValidateGenesis and
\* the row validators it calls), restricted to what the abstraction can falsify: addresses,
\* string formats and decimal syntax are valid by construction of the abstract state.
\*   - Batch.Validate: end date strictly after start date (datesOK switches it off)
\*   - every class has its credit type; every batch resolves to a project and a class
\*   - every balance row belongs to such a batch; every basket balance names a batch that
\*     has at least one balance row ("unknown credit batch in basket" otherwise)
\*   - per batch with balance rows: a supply row exists and
\*       tradable + retired supply = sum(tradable + retired + escrowed) + basket holdings
\*   - supplies without any balance row, or balances without any supply row, are rejected
\*   - sequences start at 1; stored amounts are non-negative
BatchOK(s, b) == HasProjectKey(s, b.pk) /\ HasClassKey(s, ProjectByKey(s, b.pk).ck)
WithRows(s) == {r.bk : r \in s.bal}
GenesisValidWith(s, datesOK) ==
  /\ datesOK => \A b \in s.batches : b.end > b.start
  /\ \A c \in s.classes : HasCreditType(s, c.ct)
  /\ \A b \in s.batches : BatchOK(s, b) /\ HasCreditType(s, ClassByKey(s, ProjectByKey(s, b.pk).ck).ct)
  /\ \A r \in s.bal : HasBatchKey(s, r.bk) /\ r.t >= 0 /\ r.r >= 0 /\ r.e >= 0
  /\ \A r \in s.supply : r.t >= 0 /\ r.r >= 0 /\ r.c >= 0
  /\ \A x \in s.bbal : HasBatchDenom(s, x.denom) /\ BatchByDenom(s, x.denom).key \in WithRows(s) /\ x.amt >= 0
  /\ \A bk \in WithRows(s) :
       /\ HasSupply(s, bk)
       /\ SupplyOf(s, bk).t + SupplyOf(s, bk).r
            = SumBal(s, bk, LAMBDA r : r.t + r.r + r.e) + SumBBalDenom(s, BatchByKey(s, bk).denom)
  /\ (s.bal = {}) => (s.supply = {})
  /\ (s.supply = {}) => (s.bal = {})
  /\ \A q \in s.cseq : q.next >= 1
  /\ \A q \in s.pseq : q.next >= 1
  /\ \A q \in s.bseq : q.next >= 1
GenesisValid(s) == GenesisValidWith(s, TRUE)

\* Every reachable state passes the modelled validation -- except for the recorded finding
\* (known_findings.txt, batch_start_eq_end): MsgCreateBatch accepts start = end.
C09_ValidGenesis ==
  \/ GenesisValid(st)
  \/ /\ "batch_start_eq_end" \in KnownKeys
     /\ GenesisValidWith(st, FALSE)
     /\ \A b \in st.batches : b.end >= b.start

\* ================================================================== C13
C13_AtMostOnce == ~gh.dup

C13_ContractsUnique ==
  \A x, y \in st.contracts :
    ((x.ck = y.ck /\ x.contract = y.contract) \/ x.bk = y.bk) => x = y

C13_AllowedSource_Step ==
  EvIs("BridgeReceive") => Lower(ev'.m.origin.src) \in st.chains

\* a binding never changes or disappears
C13_BindingPermanent_Step == st.contracts \subseteq st'.contracts

C13_ReceiveIntoBound_Step ==
  EvIs("BridgeReceive") =>
    LET m == ev'.m
        c == ClassById(st, m.class_id)
        bound == \E x \in st.contracts : x.ck = c.key /\ x.contract = m.origin.contract
    IN /\ HasClassId(st, m.class_id)
       /\ "batch_denom" \in DOMAIN ev'.resp
       /\ IF bound
          THEN LET x == CHOOSE y \in st.contracts : y.ck = c.key /\ y.contract = m.origin.contract
                   b == BatchByKey(st, x.bk)
               IN /\ ev'.resp.batch_denom = b.denom
                  /\ IssuedOf(gh', b.denom) = IssuedOf(gh, b.denom) + m.amt
                  /\ TotalSup(st', b.key) = TotalSup(st, b.key) + m.amt
                  /\ BalOf(st', Acct(m.to), b.key).t = BalOf(st, Acct(m.to), b.key).t + m.amt
                  /\ st'.batches = st.batches
          ELSE /\ ~HasBatchDenom(st, ev'.resp.batch_denom)
               /\ HasBatchDenom(st', ev'.resp.batch_denom)
               /\ LET b == BatchByDenom(st', ev'.resp.batch_denom) IN
                  /\ \E x \in st'.contracts : x.bk = b.key /\ x.ck = c.key /\ x.contract = m.origin.contract
                  /\ TotalSup(st', b.key) = m.amt
                  /\ BalOf(st', Acct(m.to), b.key).t = m.amt

C13_BridgeOut_Step ==
  EvIs("Bridge") =>
    LET m == ev'.m IN
    /\ Lower(m.target) \in st.chains
    /\ "contracts" \in DOMAIN ev'.resp /\ Len(ev'.resp.contracts) = Len(m.credits)
    /\ \A i \in DOMAIN m.credits :
         /\ HasBatchDenom(st, m.credits[i].denom)
         /\ HasContract(st, BatchByDenom(st, m.credits[i].denom).key)
         /\ ev'.resp.contracts[i] = ContractOf(st, BatchByDenom(st, m.credits[i].denom).key)
    /\ \A b \in st.batches :
         LET q == SumOver({i \in DOMAIN m.credits : m.credits[i].denom = b.denom},
                          LAMBDA i : m.credits[i].amt) IN
         /\ SupplyOrZero(st', b.key).c = SupplyOrZero(st, b.key).c + q
         /\ SupplyOrZero(st', b.key).t = SupplyOrZero(st, b.key).t - q
         /\ SupplyOrZero(st', b.key).r = SupplyOrZero(st, b.key).r
         /\ BalOf(st', m.owner, b.key).t = BalOf(st, m.owner, b.key).t - q
    /\ OnlyChanged({"bal", "supply"})
    /\ RowsSameExcept("bal", LAMBDA r : r.a = m.owner)

C13_AllowedSource_Step_Prop == TRUE
C13_AllowedSource_Prop    == [][C13_AllowedSource_Step]_vars
C13_BindingPermanent_Prop == [][C13_BindingPermanent_Step]_vars
C13_ReceiveIntoBound_Prop == [][C13_ReceiveIntoBound_Step]_vars
C13_BridgeOut_Prop        == [][C13_BridgeOut_Step]_vars

\* ================================================================== C14
Unique(T, F(_)) == \A x, y \in T : F(x) = F(y) => x = y

C14_Unique ==
  /\ Unique(st.classes, LAMBDA r : r.id)   /\ Unique(st.classes, LAMBDA r : r.key)
  /\ Unique(st.projects, LAMBDA r : r.id)  /\ Unique(st.projects, LAMBDA r : r.key)
  /\ Unique(st.batches, LAMBDA r : r.denom) /\ Unique(st.batches, LAMBDA r : r.key)
  /\ Unique(st.baskets, LAMBDA r : r.denom) /\ Unique(st.baskets, LAMBDA r : r.id)
  /\ Unique(st.baskets, LAMBDA r : r.name)
  /\ Unique(st.orders, LAMBDA r : r.id)    /\ Unique(st.markets, LAMBDA r : r.id)

C14_References ==
  /\ \A c \in st.classes : HasCreditType(st, c.ct)
  /\ \A p \in st.projects : HasClassKey(st, p.ck)
  /\ \A b \in st.batches : HasProjectKey(st, b.pk)
  /\ \A i \in st.issuers : HasClassKey(st, i.ck)
  /\ \A r \in st.bal : HasBatchKey(st, r.bk)
  /\ \A r \in st.supply : HasBatchKey(st, r.bk)
  /\ \A b \in st.batches : HasSupply(st, b.key)
  /\ \A x \in st.contracts : HasBatchKey(st, x.bk) /\ HasClassKey(st, x.ck)
  /\ \A x \in st.origintx : HasClassKey(st, x.ck)
  /\ \A o \in st.orders : HasBatchKey(st, o.bk) /\ HasMarketId(st, o.mid)
  \* ... and resolve to the RIGHT row: the order's market is the market of its batch's credit type
  \* (seeded change C14-k caches market ids per ask denomination across credit types)
  /\ \A o \in st.orders :
       (HasBatchKey(st, o.bk) /\ HasMarketId(st, o.mid) /\ BatchResolvable(st, BatchByKey(st, o.bk)))
         => MarketById(st, o.mid).ct = BatchClass(st, BatchByKey(st, o.bk)).ct
  /\ \A k \in st.markets : HasCreditType(st, k.ct)
  /\ \A x \in st.bbal : HasBatchDenom(st, x.denom) /\ \E k \in st.baskets : k.id = x.bid
  /\ \A x \in st.bclasses : HasClassId(st, x.cid) /\ \E k \in st.baskets : k.id = x.bid
  /\ \A k \in st.baskets : HasCreditType(st, k.ct)

\* every id has the documented form, embeds its parent's id, and carries a
\* sequence number below the scope's next number
C14_Format ==
  /\ \A c \in st.classes :
       \E n \in 1..(NextOf(st.cseq, "ct", c.ct) - 1) : c.id = ClassIdOf(c.ct, n)
  /\ \A p \in st.projects :
       HasClassKey(st, p.ck) /\
       \E n \in 1..(NextOf(st.pseq, "ck", p.ck) - 1) : p.id = ProjectIdOf(ClassByKey(st, p.ck).id, n)
  /\ \A b \in st.batches :
       HasProjectKey(st, b.pk) /\
       \E n \in 1..(NextOf(st.bseq, "pk", b.pk) - 1) :
          b.denom = BatchDenomOf(ProjectByKey(st, b.pk).id, b.start, b.end, n)
  /\ \A k \in st.baskets : k.denom = BasketDenomOf(k.ct, k.name)

C14_Consecutive_Step ==
  /\ EvIs("CreateClass") =>
       LET n == NextOf(st.cseq, "ct", ev'.m.ct) IN
       /\ ev'.resp = [class_id |-> ClassIdOf(ev'.m.ct, n)]
       /\ NextOf(st'.cseq, "ct", ev'.m.ct) = n + 1
       /\ ~HasClassId(st, ev'.resp.class_id) /\ HasClassId(st', ev'.resp.class_id)
       /\ Cardinality(st'.classes) = Cardinality(st.classes) + 1
  /\ EvIs("CreateProject") =>
       LET ck == ClassById(st, ev'.m.class_id).key
           n  == NextOf(st.pseq, "ck", ck) IN
       /\ ev'.resp = [project_id |-> ProjectIdOf(ev'.m.class_id, n)]
       /\ NextOf(st'.pseq, "ck", ck) = n + 1
       /\ ~HasProjectId(st, ev'.resp.project_id) /\ HasProjectId(st', ev'.resp.project_id)
       /\ Cardinality(st'.projects) = Cardinality(st.projects) + 1
  /\ EvIs("CreateBatch") =>
       LET pk == ProjectById(st, ev'.m.project_id).key
           n  == NextOf(st.bseq, "pk", pk) IN
       /\ ev'.resp = [batch_denom |-> BatchDenomOf(ev'.m.project_id, ev'.m.start, ev'.m.end, n)]
       /\ NextOf(st'.bseq, "pk", pk) = n + 1
       /\ ~HasBatchDenom(st, ev'.resp.batch_denom) /\ HasBatchDenom(st', ev'.resp.batch_denom)
       /\ Cardinality(st'.batches) = Cardinality(st.batches) + 1
  \* numbers are consumed only by successful creations, one at a time
  /\ \A r \in st.cseq : NextOf(st'.cseq, "ct", r.ct) >= r.next
  /\ \A r \in st.pseq : NextOf(st'.pseq, "ck", r.ck) >= r.next
  /\ \A r \in st.bseq : NextOf(st'.bseq, "pk", r.pk) >= r.next
  /\ (~ev'.ok) => /\ st'.cseq = st.cseq /\ st'.pseq = st.pseq /\ st'.bseq = st.bseq
                  /\ st'.classes = st.classes /\ st'.projects = st.projects /\ st'.batches = st.batches
  /\ (ev'.type \notin {"CreateClass", "CreateProject", "CreateBatch", "BridgeReceive"}) =>
       st'.cseq = st.cseq /\ st'.pseq = st.pseq /\ st'.bseq = st.bseq

C14_Consecutive_Prop == [][C14_Consecutive_Step]_vars

\* ================================================================== C18
\* creation fees are charged exactly
FeeExact(fee, payer) ==
  IF fee.set /\ fee.amt > 0
  THEN /\ ev'.m.fee.set /\ ev'.m.fee.denom = fee.denom /\ ev'.m.fee.amt >= fee.amt
       /\ CoinBal(st, payer, fee.denom) >= fee.amt
       /\ CoinBal(st', payer, fee.denom) = CoinBal(st, payer, fee.denom) - fee.amt
       /\ CoinSupply(st', fee.denom) = CoinSupply(st, fee.denom) - fee.amt
       /\ RowsSameExcept("coins", LAMBDA r : r.a = payer /\ r.d = fee.denom)
       /\ RowsSameExcept("csupply", LAMBDA r : r.d = fee.denom)
  ELSE st'.coins = st.coins /\ st'.csupply = st.csupply

C18_FeeExact_Step ==
  /\ EvIs("CreateClass")  => FeeExact(st.classfee, ev'.m.admin)
  /\ EvIs("BasketCreate") => FeeExact(st.basketfee, ev'.m.curator)

\* documented preconditions of user operations ("must succeed" direction);
\* applied to events drawn from the specification's own message domain
FeeOfferOK(s, fee, offered, payer) ==
  (fee.set /\ fee.amt > 0) => /\ offered.set /\ offered.denom = fee.denom /\ offered.amt >= fee.amt
             /\ CoinBal(s, payer, fee.denom) >= fee.amt

PreCreateClass(s, m) ==
  /\ Len(m.issuers) > 0 /\ NoDup(m.issuers) /\ HasCreditType(s, m.ct)
  /\ s.allowlist => m.admin \in s.creators
  /\ m.fee.set => m.fee.amt > 0
  /\ FeeOfferOK(s, s.classfee, m.fee, m.admin)

PreBasketCreate(s, m) ==
  /\ Len(m.classes) > 0 /\ NoDup(m.classes) /\ HasCreditType(s, m.ct)
  /\ \A i \in DOMAIN m.classes : HasClassId(s, m.classes[i]) /\ ClassById(s, m.classes[i]).ct = m.ct
  /\ ~\E k \in s.baskets : k.name = m.name \/ k.denom = BasketDenomOf(m.ct, m.name)
  /\ m.fee.set => m.fee.amt > 0
  /\ FeeOfferOK(s, s.basketfee, m.fee, m.curator)

PreSell(s, m) ==
  /\ Len(m.orders) = 1
  /\ LET e == m.orders[1] IN
     /\ e.qty > 0 /\ e.ask_amt > 0
     /\ HasBatchDenom(s, e.denom) /\ BatchResolvable(s, BatchByDenom(s, e.denom))
     /\ BalOf(s, m.seller, BatchByDenom(s, e.denom).key).t >= e.qty
     /\ DenomAllowed(s, e.ask_denom)
     /\ (e.exp.set => e.exp.t > s.now)

\* one order, enough funds for the exact total (rounded up), max fee covers the fee
PreBuyDirect(s, m) ==
  /\ Len(m.orders) = 1
  /\ LET o == m.orders[1] IN
     /\ o.qty > 0 /\ HasOrder(s, o.id)
     /\ LET so == OrderById(s, o.id)
            bt == s.feeparams.buyer
            N  == o.qty * s.unit.un * so.ask
            D  == s.unit.ud
        IN /\ so.seller # m.buyer
           /\ (o.dar => so.dar)
           /\ HasMarketId(s, so.mid) /\ o.bid_denom = MarketById(s, so.mid).denom
           /\ o.bid_amt >= so.ask
           /\ o.qty <= so.qty
           /\ (~so.exp.set \/ so.exp.t > s.now)
           /\ HasBatchKey(s, so.bk) /\ BatchResolvable(s, BatchByKey(s, so.bk))
           /\ CoinBal(s, m.buyer, o.bid_denom) * D * RDen(bt) >= N * (RDen(bt) + RNum(bt))
           /\ (IF o.maxfee.set THEN o.maxfee.denom = o.bid_denom /\ o.maxfee.amt * D * RDen(bt) >= N * RNum(bt)
               ELSE RNum(bt) = 0)
           /\ HasBal(s, so.seller, so.bk) /\ BalOf(s, so.seller, so.bk).e >= o.qty
           /\ HasSupply(s, so.bk) /\ SupplyOf(s, so.bk).t >= o.qty

\* the owner of an open order changes it: new quantity covered by escrow + tradable, allowed
\* denom, expiration in the future
PreUpdateSellOrders(s, m) ==
  /\ Len(m.updates) = 1
  /\ LET u == m.updates[1] IN
     /\ u.qty > 0 /\ u.ask_amt > 0 /\ HasOrder(s, u.id)
     /\ LET o == OrderById(s, u.id) IN
        /\ o.seller = m.seller
        /\ HasBatchKey(s, o.bk) /\ BatchResolvable(s, BatchByKey(s, o.bk)) /\ HasMarketId(s, o.mid)
        /\ DenomAllowed(s, u.ask_denom)
        /\ (u.exp.set => u.exp.t > s.now)
        /\ HasBal(s, o.seller, o.bk)
        /\ (u.qty > o.qty => BalOf(s, o.seller, o.bk).t >= u.qty - o.qty)
        /\ (u.qty < o.qty => BalOf(s, o.seller, o.bk).e >= o.qty - u.qty)

PreCancelSellOrder(s, m) ==
  /\ HasOrder(s, m.id) /\ OrderById(s, m.id).seller = m.seller
  /\ LET o == OrderById(s, m.id) IN HasBal(s, o.seller, o.bk) /\ BalOf(s, o.seller, o.bk).e >= o.qty

\* the holder of tradable credits sends / retires / cancels them (one entry)
PreSend(s, m) ==
  /\ Len(m.credits) = 1 /\ m.sender # m.recipient /\ Acct(m.recipient) # m.sender
  /\ LET e == m.credits[1] IN
     /\ e.t + e.r > 0
     /\ HasBatchDenom(s, e.denom) /\ BatchResolvable(s, BatchByDenom(s, e.denom))
     /\ LET bk == BatchByDenom(s, e.denom).key IN
        /\ HasBal(s, m.sender, bk) /\ BalOf(s, m.sender, bk).t >= e.t + e.r
        /\ (e.r > 0 => HasSupply(s, bk) /\ SupplyOf(s, bk).t >= e.r)

PreBurn(s, m) ==
  /\ Len(m.credits) = 1
  /\ LET e == m.credits[1] IN
     /\ e.amt > 0
     /\ HasBatchDenom(s, e.denom) /\ BatchResolvable(s, BatchByDenom(s, e.denom))
     /\ LET bk == BatchByDenom(s, e.denom).key IN
        /\ HasBal(s, m.owner, bk) /\ BalOf(s, m.owner, bk).t >= e.amt
        /\ HasSupply(s, bk) /\ SupplyOf(s, bk).t >= e.amt

\* bridge out: an allowed target chain and a batch with a bound contract
PreBridge(s, m) ==
  /\ PreBurn(s, m) /\ Lower(m.target) \in s.chains
  /\ HasContract(s, BatchByDenom(s, m.credits[1].denom).key)

PreOf(s, e) ==
  CASE e.type = "CreateClass"  -> PreCreateClass(s, e.m)
    [] e.type = "BasketCreate" -> PreBasketCreate(s, e.m)
    [] e.type = "Sell"         -> PreSell(s, e.m)
    [] e.type = "BuyDirect"    -> PreBuyDirect(s, e.m)
    [] e.type = "UpdateSellOrders" -> PreUpdateSellOrders(s, e.m)
    [] e.type = "CancelSellOrder"  -> PreCancelSellOrder(s, e.m)
    [] e.type = "Send"         -> PreSend(s, e.m)
    [] e.type \in {"Retire", "Cancel"} -> PreBurn(s, e.m)
    [] e.type = "Bridge"       -> PreBridge(s, e.m)
    [] OTHER -> FALSE

C18_NoFeatureDisabled_Step ==
  (ev'.dom = "spec" /\ WellFormed(ev'.m) /\ PreOf(st, ev')) => ev'.ok

C18_NoFeatureDisabled_TStep ==
  (ev'.dom = "spec" /\ WellFormed(ev'.m) /\ PreOf(st, ev') /\ SpecAccepts(st, ev'.m)) => ev'.ok

C18_FeeExact_Prop          == [][C18_FeeExact_Step]_vars
C18_NoFeatureDisabled_Prop == [][C18_NoFeatureDisabled_Step]_vars


\* ================================================================== C17
\* What every list query must return in state s: [err, items].  Items are the
\* strings the harness abstracts a response element to (ids, denoms, account
\* names, "account|denom" for balances, decimal order ids).
QOk(S) == [err |-> FALSE, items |-> S]
QErr == [err |-> TRUE, items |-> {}]
DenomOfKey(s, bk) == IF HasBatchKey(s, bk) THEN BatchByKey(s, bk).denom ELSE "?"
BalItem(s, r) == r.a \o "|" \o DenomOfKey(s, r.bk)
BatchClassKey(s, b) == IF HasProjectKey(s, b.pk) THEN ProjectByKey(s, b.pk).ck ELSE 0

QExpect(s, q, arg) ==
  CASE q = "Classes"  -> QOk({c.id : c \in s.classes})
    [] q = "Projects" -> QOk({p.id : p \in s.projects})
    [] q = "Batches"  -> QOk({b.denom : b \in s.batches})
    [] q = "AllBalances" -> QOk({BalItem(s, r) : r \in s.bal})
    [] q = "SellOrders"  -> QOk({ToString(o.id) : o \in s.orders})
    [] q = "Baskets"     -> QOk({k.denom : k \in s.baskets})
    [] q = "AllowedDenoms" -> QOk({d.bank : d \in s.denoms})
    [] q = "ClassesByAdmin"  -> QOk({c.id : c \in {x \in s.classes : x.admin = arg}})
    [] q = "ProjectsByAdmin" -> QOk({p.id : p \in {x \in s.projects : x.admin = arg}})
    [] q = "BatchesByIssuer" -> QOk({b.denom : b \in {x \in s.batches : x.issuer = arg}})
    [] q = "Balances"        -> QOk({BalItem(s, r) : r \in {x \in s.bal : x.a = arg}})
    [] q = "SellOrdersBySeller" -> QOk({ToString(o.id) : o \in {x \in s.orders : x.seller = arg}})
    [] q = "ProjectsByClass" ->
         IF ~HasClassId(s, arg) THEN QErr
         ELSE QOk({p.id : p \in {x \in s.projects : x.ck = ClassById(s, arg).key}})
    [] q = "BatchesByClass" ->
         IF ~HasClassId(s, arg) THEN QErr
         ELSE QOk({b.denom : b \in {x \in s.batches : BatchClassKey(s, x) = ClassById(s, arg).key}})
    [] q = "ClassIssuers" ->
         IF ~HasClassId(s, arg) THEN QErr
         ELSE QOk({i.a : i \in {x \in s.issuers : x.ck = ClassById(s, arg).key}})
    [] q = "BatchesByProject" ->
         IF ~HasProjectId(s, arg) THEN QErr
         ELSE QOk({b.denom : b \in {x \in s.batches : x.pk = ProjectById(s, arg).key}})
    [] q = "ProjectsByReferenceId" ->
         IF arg = "" THEN QErr ELSE QOk({p.id : p \in {x \in s.projects : x.ref = arg}})
    [] q = "BalancesByBatch" ->
         IF ~HasBatchDenom(s, arg) THEN QErr
         ELSE QOk({BalItem(s, r) : r \in {x \in s.bal : x.bk = BatchByDenom(s, arg).key}})
    [] q = "SellOrdersByBatch" ->
         IF ~HasBatchDenom(s, arg) THEN QErr
         ELSE QOk({ToString(o.id) : o \in {x \in s.orders : x.bk = BatchByDenom(s, arg).key}})
    [] q = "BasketBalances" ->
         IF ~HasBasket(s, arg) THEN QErr
         ELSE QOk({x.denom : x \in {y \in s.bbal : y.bid = BasketByDenom(s, arg).id}})
    [] OTHER -> QErr

SeqToSet(q) == {q[i] : i \in DOMAIN q}
NoDupSeq(q) == \A i, j \in DOMAIN q : i # j => q[i] # q[j]

\* the attributes a list query reports for the element it abstracts to item k
\* ("a|b|c" as the harness renders them); "?" when the element is not in the state
BoolStr(b) == IF b THEN "true" ELSE "false"
CritStr(c) == IF c = NoCrit THEN "none:0" ELSE c.kind \o ":" \o ToString(c.v)
QAttr(s, q, k) ==
  CASE q \in {"Classes", "ClassesByAdmin"} ->
         IF ~HasClassId(s, k) THEN "?" ELSE
         LET c == ClassById(s, k) IN c.admin \o "|" \o c.meta \o "|" \o c.ct
    [] q \in {"Projects", "ProjectsByAdmin", "ProjectsByClass", "ProjectsByReferenceId"} ->
         IF ~HasProjectId(s, k) THEN "?" ELSE
         LET p == ProjectById(s, k) IN
         p.admin \o "|" \o (IF HasClassKey(s, p.ck) THEN ClassByKey(s, p.ck).id ELSE "?")
           \o "|" \o p.jur \o "|" \o p.meta \o "|" \o p.ref
    [] q \in {"Batches", "BatchesByIssuer", "BatchesByClass", "BatchesByProject"} ->
         IF ~HasBatchDenom(s, k) THEN "?" ELSE
         LET b == BatchByDenom(s, k) IN
         b.issuer \o "|" \o (IF HasProjectKey(s, b.pk) THEN ProjectByKey(s, b.pk).id ELSE "?")
           \o "|" \o b.meta \o "|" \o BoolStr(b.open) \o "|" \o ToString(b.start) \o "|" \o ToString(b.end)
    [] q = "Baskets" ->
         IF ~HasBasket(s, k) THEN "?" ELSE
         LET b == BasketByDenom(s, k) IN
         b.name \o "|" \o b.ct \o "|" \o BoolStr(b.dar) \o "|" \o b.curator \o "|" \o CritStr(b.crit)
    [] q \in {"SellOrders", "SellOrdersBySeller", "SellOrdersByBatch"} ->
         IF ~\E o \in s.orders : ToString(o.id) = k THEN "?" ELSE
         LET o == CHOOSE y \in s.orders : ToString(y.id) = k IN
         o.seller \o "|" \o DenomOfKey(s, o.bk) \o "|"
           \o (IF HasMarketId(s, o.mid) THEN MarketById(s, o.mid).denom ELSE "?") \o "|" \o ToString(o.ask)
           \o "|" \o BoolStr(o.dar) \o "|" \o (IF o.exp.set THEN ToString(o.exp.t) ELSE "none")
    [] OTHER -> "?"
CoinStr(c) == IF ~c.set THEN "none" ELSE c.denom \o ":" \o ToString(c.amt)
C17_AttrsOK(s, x) ==
  ("attrs" \in DOMAIN x /\ ~x.err) => \A i \in DOMAIN x.attrs : x.attrs[i].v = QAttr(s, x.q, x.attrs[i].k)

\* one logged walk x = [q, arg, mode, limit, items, total, pages, err]
C17_ListOK(s, x) ==
  LET e == QExpect(s, x.q, x.arg)
      n == Cardinality(e.items)
  IN
  IF x.mode = "offset0" /\ ~e.err /\ x.offset >= n
  \* a request that starts at or beyond the end is not part of walking the pages;
  \* (cosmos-sdk/orm's paginate panics on it: "invalid cacheMergeIterator" -- a defect of
  \* the dependency, observed and recorded in DESIGN.md section 12, not judged here)
  THEN TRUE
  ELSE
  /\ x.err = e.err
  /\ ~x.err =>
       /\ NoDupSeq(x.items)                               \* no element twice
       /\ SeqToSet(x.items) \subseteq e.items
       /\ IF x.mode = "offset0"
          \* an offset without a limit: everything after the first `offset` elements
          \* (up to the default page size)
          THEN (n - x.offset <= 100) => Len(x.items) = n - x.offset
          ELSE (x.mode \notin {"nil", "keynolimit"} \/ n <= 100) => SeqToSet(x.items) = e.items
       /\ x.total >= 0 => x.total = n                     \* correct total on the first page
       /\ x.mode \in {"key", "offset", "reverse"} =>       \* no page is longer than asked for
            x.pages * x.limit >= Len(x.items)

\* single-entity queries return the stored values
C17_SingleOK(s, x) ==
  CASE x.q = "Balance" ->
         ~x.err /\ [a |-> x.a, bk |-> x.bk, t |-> x.t, r |-> x.r, e |-> x.e] \in s.bal
    [] x.q = "Supply" ->
         ~x.err /\ [bk |-> x.bk, t |-> x.t, r |-> x.r, c |-> x.c] \in s.supply
    [] x.q = "Batch" ->
         ~x.err /\ \E b \in s.batches :
            /\ b.denom = x.denom /\ b.issuer = x.issuer /\ b.open = x.open
            /\ HasProjectKey(s, b.pk) /\ ProjectByKey(s, b.pk).id = x.project_id
    [] x.q = "SellOrder" ->
         ~x.err /\ \E o \in s.orders :
            /\ o.id = x.id /\ o.seller = x.seller /\ o.qty = x.qty /\ o.ask = x.ask
            /\ HasMarketId(s, o.mid) /\ MarketById(s, o.mid).denom = x.ask_denom
            /\ DenomOfKey(s, o.bk) = x.denom
    [] x.q = "BasketBalance" ->
         ~x.err /\ \E y \in s.bbal : y.bid = x.bid /\ y.denom = x.denom /\ y.amt = x.amt
    [] x.q = "Class" ->
         ~x.err /\ \E c \in s.classes : c.id = x.id /\ c.admin = x.admin /\ c.ct = x.ct
    [] x.q = "Project" ->
         ~x.err /\ \E p \in s.projects :
            /\ p.id = x.id /\ p.admin = x.admin /\ p.ref = x.ref
            /\ HasClassKey(s, p.ck) /\ ClassByKey(s, p.ck).id = x.class_id
    \* parameter-style queries: a value (v) or a set of items
    [] x.q = "Param" ->
         /\ ~x.err
         /\ CASE x.name = "ClassFee"  -> x.v = CoinStr(s.classfee)
              [] x.name = "BasketFee" -> x.v = CoinStr(s.basketfee)
              [] x.name = "Allowlist" -> x.v = BoolStr(s.allowlist)
              [] x.name = "BridgeChains" -> NoDupSeq(x.items) /\ SeqToSet(x.items) = s.chains
              [] x.name = "Creators"     -> NoDupSeq(x.items) /\ SeqToSet(x.items) = s.creators
              [] x.name = "CreditTypes"  ->
                   /\ NoDupSeq(x.items)
                   /\ SeqToSet(x.items) = {t.abbr \o "|" \o t.name \o "|" \o t.unit \o "|" \o ToString(t.prec) : t \in s.ctypes}
              [] OTHER -> TRUE
    [] x.q = "Basket" ->
         /\ ~x.err /\ HasBasket(s, x.denom)
         /\ x.v = QAttr(s, "Baskets", x.denom)
         /\ NoDupSeq(x.items)
         /\ SeqToSet(x.items) = {y.cid : y \in {z \in s.bclasses : z.bid = BasketByDenom(s, x.denom).id}}
    [] OTHER -> TRUE

=============================================================================
