------------------------------- MODULE Props -------------------------------
(***************************************************************************)
(* One definition per property clause, written over the variables st, ev,  *)
(* gh of Ecocredit.  The SAME formulas are the INVARIANT / PROPERTY        *)
(* entries of the exhaustive configurations (MC_Eco) and of the trace      *)
(* specification (TraceEco), where st / ev are the states and events       *)
(* recorded from the real keepers.                                         *)
(*                                                                         *)
(* State predicates are named Cnn_*; action-level clauses are named        *)
(* Cnn_*_Step (a predicate on st, st', ev') and wrapped as                 *)
(*      Cnn_*_Prop == [][Cnn_*_Step]_vars.                                 *)
(***************************************************************************)
EXTENDS Ecocredit

\* ------------------------------------------------------------------ helpers
BalKeys(s) == {<<r.a, r.bk>> : r \in s.bal}
SumBal(s, bk, F(_)) == SumOver({r \in s.bal : r.bk = bk}, F)
SumBBalDenom(s, d)  == SumOver({x \in s.bbal : x.denom = d}, LAMBDA x : x.amt)
SumBBalBasket(s, bid) == SumOver({x \in s.bbal : x.bid = bid}, LAMBDA x : x.amt)
SupplyOrZero(s, bk) ==
  IF HasSupply(s, bk) THEN SupplyOf(s, bk) ELSE [bk |-> bk, t |-> 0, r |-> 0, c |-> 0]
TotalSup(s, bk) == TotalOf(SupplyOrZero(s, bk))
Changed(f) == st'[f] # st[f]
OnlyChanged(F) == \A f \in DOMAIN st : f \notin F => st'[f] = st[f]
EvIs(T) == ev'.type = T /\ ev'.ok

\* ================================================================== C01
\* Credit conservation: supply = balances + escrow + basket holdings
C01_Conservation ==
  \A b \in st.batches :
    LET sup == SupplyOrZero(st, b.key) IN
    /\ sup.t = SumBal(st, b.key, LAMBDA r : r.t + r.e) + SumBBalDenom(st, b.denom)
    /\ sup.r = SumBal(st, b.key, LAMBDA r : r.r)

\* every balance / supply / basket row belongs to an existing batch, so no
\* credits exist outside the batches the first clause ranges over
C01_NoOrphans ==
  /\ \A r \in st.bal : HasBatchKey(st, r.bk)
  /\ \A r \in st.supply : HasBatchKey(st, r.bk)
  /\ \A x \in st.bbal : HasBatchDenom(st, x.denom)

C01_NonNegative ==
  /\ \A r \in st.bal : r.t >= 0 /\ r.r >= 0 /\ r.e >= 0
  /\ \A r \in st.supply : r.t >= 0 /\ r.r >= 0 /\ r.c >= 0
  /\ \A x \in st.bbal : x.amt >= 0

\* ================================================================== C02
C02_Accounting ==
  \A b \in st.batches : TotalSup(st, b.key) = IssuedOf(gh, b.denom)

C02_OnlyIssuers_Step ==
  \A b \in st'.batches :
    TotalSup(st', b.key) # TotalSup(st, b.key) =>
      /\ ev'.ok /\ ev'.type \in IssuingTypes
      /\ \E x \in IssuedBy(ev') : x.denom = b.denom

C02_SealedFrozen_Step ==
  \A b \in st.batches :
    ~b.open => TotalSup(st', b.key) = TotalSup(st, b.key)

C02_OnlyIssuers_Prop  == [][C02_OnlyIssuers_Step]_vars
C02_SealedFrozen_Prop == [][C02_SealedFrozen_Step]_vars

\* ================================================================== C04
\* Retirement and cancellation are permanent (rows may not disappear either:
\* a missing row counts as zero)
C04_Permanence_Step ==
  /\ \A r \in st.bal : BalOf(st', r.a, r.bk).r >= r.r
  /\ \A r \in st.supply : /\ SupplyOrZero(st', r.bk).r >= r.r
                          /\ SupplyOrZero(st', r.bk).c >= r.c

C04_Permanence_Prop == [][C04_Permanence_Step]_vars


\* ================================================================== C03
\* Ownership safety: holdings shrink only by the owner's signature or a paid fill
Sg == ev'.signers
Holding(s, a, bk) == BalOf(s, a, bk).t + BalOf(s, a, bk).e
AllAccts == {r.a : r \in st.bal} \cup {r.a : r \in st.coins}

\* quantity of a's orders for batch bk filled by the (successful) BuyDirect ev'
FilledQty(a, bk) ==
  SumOver({i \in DOMAIN ev'.m.orders :
             /\ HasOrder(st, ev'.m.orders[i].id)
             /\ OrderById(st, ev'.m.orders[i].id).seller = a
             /\ OrderById(st, ev'.m.orders[i].id).bk = bk},
          LAMBDA i : ev'.m.orders[i].qty)

C03_Credits_Step ==
  \A r \in st.bal :
    r.a \notin Sg =>
      IF EvIs("BuyDirect")
      THEN /\ BalOf(st', r.a, r.bk).t >= r.t
           /\ BalOf(st', r.a, r.bk).e = r.e - FilledQty(r.a, r.bk)
      ELSE IF IsBlockEv(ev')
      THEN /\ Holding(st', r.a, r.bk) = Holding(st, r.a, r.bk)
           /\ BalOf(st', r.a, r.bk).e <= r.e
      ELSE /\ Holding(st', r.a, r.bk) >= Holding(st, r.a, r.bk)
           /\ BalOf(st', r.a, r.bk).e >= r.e

C03_Coins_Step ==
  \A r \in st.coins :
    r.a \notin Sg =>
      \/ CoinBal(st', r.a, r.d) >= r.n
      \/ r.a = ModFeePool /\ EvIs("GovSendFromFeePool") /\ Gov \in Sg

C03_Block_Step == IsBlockEv(ev') => st'.coins = st.coins /\ st'.csupply = st.csupply

C03_Credits_Prop == [][C03_Credits_Step]_vars
C03_Coins_Prop   == [][C03_Coins_Step]_vars
C03_Block_Prop   == [][C03_Block_Step]_vars

\* ================================================================== C05
C05_Backed ==
  \A k \in st.baskets : CoinSupply(st, k.denom) = SumBBalBasket(st, k.id)

C05_PutMints_Step ==
  EvIs("Put") =>
    LET m == ev'.m
        amt == SumAmt(m.credits)
        d == m.basket_denom
    IN /\ CoinBal(st', m.owner, d) = CoinBal(st, m.owner, d) + amt
       /\ CoinSupply(st', d) = CoinSupply(st, d) + amt
       /\ ev'.resp = [amount_received |-> amt]
       /\ HasBasket(st, d)
       /\ SumBBalBasket(st', BasketByDenom(st, d).id)
            = SumBBalBasket(st, BasketByDenom(st, d).id) + amt

C05_TakeBurns_Step ==
  EvIs("Take") =>
    LET m == ev'.m
        d == m.basket_denom
    IN /\ CoinBal(st', m.owner, d) = CoinBal(st, m.owner, d) - m.amt
       /\ CoinSupply(st', d) = CoinSupply(st, d) - m.amt
       /\ "credits" \in DOMAIN ev'.resp
       /\ SumAmt(ev'.resp.credits) = m.amt
       /\ HasBasket(st, d)
       /\ SumBBalBasket(st', BasketByDenom(st, d).id)
            = SumBBalBasket(st, BasketByDenom(st, d).id) - m.amt

\* basket tokens appear and disappear only through Put and Take
C05_OnlyPutTake_Step ==
  \A k \in st.baskets :
    CoinSupply(st', k.denom) # CoinSupply(st, k.denom) =>
      ev'.ok /\ ev'.type \in {"Put", "Take"} /\ ev'.m.basket_denom = k.denom

C05_PutMints_Prop    == [][C05_PutMints_Step]_vars
C05_TakeBurns_Prop   == [][C05_TakeBurns_Step]_vars
C05_OnlyPutTake_Prop == [][C05_OnlyPutTake_Step]_vars

\* ================================================================== C06
OrderQty(s, a, bk) ==
  SumOver({o \in s.orders : o.seller = a /\ o.bk = bk}, LAMBDA o : o.qty)

C06_Escrow ==
  /\ \A r \in st.bal : r.e = OrderQty(st, r.a, r.bk)
  /\ \A o \in st.orders : HasBal(st, o.seller, o.bk)

C06_OrderWellFormed ==
  \A o \in st.orders :
    /\ o.qty > 0 /\ o.ask > 0
    /\ HasBatchKey(st, o.bk)
    /\ HasMarketId(st, o.mid)

\* the ask denom of an order written by this step was allowed in the pre-state
C06_DenomAllowedAtWrite_Step ==
  \A o \in st'.orders :
    LET new     == ~HasOrder(st, o.id)
        updated == EvIs("UpdateSellOrders") /\
                   \E i \in DOMAIN ev'.m.updates : ev'.m.updates[i].id = o.id
    IN /\ (new \/ updated) =>
            HasMarketId(st', o.mid) /\ DenomAllowed(st, MarketById(st', o.mid).denom)
       /\ (~new /\ ~updated) =>
            \* nothing else may move an order to another market or reprice it
            /\ o.mid = OrderById(st, o.id).mid
            /\ o.ask = OrderById(st, o.id).ask

C06_DenomAllowedAtWrite_Prop == [][C06_DenomAllowedAtWrite_Step]_vars

\* ================================================================== C07
\* BuyDirect settles exactly.  All clauses are about a successful BuyDirect ev'
\* and are computed from the PRE-state orders, fee parameters and the request.
BuyEntries == DOMAIN ev'.m.orders
BuyEntry(i) == ev'.m.orders[i]
SoldOrder(i) == OrderById(st, BuyEntry(i).id)
BuyDenom(i) == MarketById(st, SoldOrder(i).mid).denom
Buyer == ev'.m.buyer
BRate == st.feeparams.buyer
SRate == st.feeparams.seller
\* exact cost of entry i as a fraction N(i) / D  (D = unit denominator)
CostN(i) == BuyEntry(i).qty * st.unit.un * SoldOrder(i).ask
CostD == st.unit.ud

C07_Orders_Step ==
  EvIs("BuyDirect") =>
    /\ \A i \in BuyEntries :
         /\ HasOrder(st, BuyEntry(i).id)
         /\ HasMarketId(st, SoldOrder(i).mid)
         /\ BuyEntry(i).bid_denom = BuyDenom(i)
         /\ BuyEntry(i).bid_amt >= SoldOrder(i).ask
         /\ BuyEntry(i).dar => SoldOrder(i).dar
         /\ SoldOrder(i).seller # Buyer
    /\ \A o \in st.orders :
         LET q == SumOver({i \in BuyEntries : BuyEntry(i).id = o.id}, LAMBDA i : BuyEntry(i).qty) IN
         IF q = 0 THEN o \in st'.orders
         ELSE IF q = o.qty THEN ~HasOrder(st', o.id)
         ELSE q < o.qty /\ HasOrder(st', o.id) /\ OrderById(st', o.id) = [o EXCEPT !.qty = @ - q]
    /\ \A o \in st'.orders : HasOrder(st, o.id)

C07_Credits_Step ==
  EvIs("BuyDirect") =>
    LET keys == {SoldOrder(i).bk : i \in BuyEntries}
        got(bk, retired) == SumOver({i \in BuyEntries : SoldOrder(i).bk = bk /\ (~BuyEntry(i).dar) = retired},
                                     LAMBDA i : BuyEntry(i).qty)
    IN /\ \A bk \in keys :
            /\ BalOf(st', Buyer, bk).t = BalOf(st, Buyer, bk).t + got(bk, FALSE)
            /\ BalOf(st', Buyer, bk).r = BalOf(st, Buyer, bk).r + got(bk, TRUE)
            /\ BalOf(st', Buyer, bk).e = BalOf(st, Buyer, bk).e
            /\ SupplyOrZero(st', bk).t = SupplyOrZero(st, bk).t - got(bk, TRUE)
            /\ SupplyOrZero(st', bk).r = SupplyOrZero(st, bk).r + got(bk, TRUE)
            /\ SupplyOrZero(st', bk).c = SupplyOrZero(st, bk).c
       /\ \A r \in st.bal :
            LET f == IF r.a = Buyer THEN 0 ELSE FilledQty(r.a, r.bk) IN
            (r.a # Buyer \/ r.bk \notin keys) =>
               BalOf(st', r.a, r.bk) = [r EXCEPT !.e = @ - f]
       /\ \A r \in st'.bal : HasBal(st, r.a, r.bk) \/ (r.a = Buyer /\ r.bk \in keys)

C07_Coins_Step ==
  EvIs("BuyDirect") =>
    LET denoms  == {BuyDenom(i) : i \in BuyEntries}
        sellers == {SoldOrder(i).seller : i \in BuyEntries}
        bn == RNum(BRate)  bd == RDen(BRate)
        sn == RNum(SRate)  sd == RDen(SRate)
        gain(a, d) == CoinBal(st', a, d) - CoinBal(st, a, d)
    IN \A d \in denoms :
         LET E    == {i \in BuyEntries : BuyDenom(i) = d}
             N    == SumOver(E, LAMBDA i : CostN(i))
             loss == CoinBal(st, Buyer, d) - CoinBal(st', Buyer, d)
             pool == IF d = "uregen" THEN CoinSupply(st, d) - CoinSupply(st', d)
                     ELSE gain(ModFeePool, d)
             sellerGain == SumOver(sellers, LAMBDA a : gain(a, d))
         IN
         \* each seller: quantity x ask minus the seller fee, within one unit per fill
         /\ \A a \in sellers :
              LET Ea == {i \in E : SoldOrder(i).seller = a}
                  Na == SumOver(Ea, LAMBDA i : CostN(i))
                  k  == Cardinality(Ea)
              IN /\ gain(a, d) * CostD * sd <= Na * (sd - sn)
                 /\ (gain(a, d) + k) * CostD * sd >= Na * (sd - sn)
         \* fee pool (or, for uregen, the burnt supply): buyer fee + seller fee
         /\ pool * CostD * bd * sd <= N * (bn * sd + sn * bd)
         /\ (pool + Cardinality(E)) * CostD * bd * sd >= N * (bn * sd + sn * bd)
         /\ (d = "uregen") => gain(ModFeePool, d) = 0
         /\ (d # "uregen") => CoinSupply(st', d) = CoinSupply(st, d)
         \* the buyer pays exactly what the others receive, never more than the exact total
         /\ loss = sellerGain + pool
         /\ loss * CostD * bd <= N * (bd + bn)
         \* the stated max fee covers the truncated buyer fee of every fill
         /\ \A i \in E :
              (IF BuyEntry(i).maxfee.set THEN BuyEntry(i).maxfee.amt ELSE 0) * CostD * bd
                 + CostD * bd > CostN(i) * bn
              \* maxfee >= floor(fee)  <=>  maxfee + 1 > fee

C07_NoOtherCoins_Step ==
  EvIs("BuyDirect") =>
    LET denoms  == {BuyDenom(i) : i \in BuyEntries}
        parties == {SoldOrder(i).seller : i \in BuyEntries} \cup {Buyer, ModFeePool}
    IN /\ \A r \in st.coins : (r.a \notin parties \/ r.d \notin denoms) => r \in st'.coins
       /\ \A r \in st'.coins : (r.a \notin parties \/ r.d \notin denoms) => r \in st.coins
       /\ \A r \in st.csupply : r.d \notin denoms => r \in st'.csupply
       /\ \A r \in st'.csupply : r.d \notin denoms => r \in st.csupply

C07_Orders_Prop       == [][C07_Orders_Step]_vars
C07_Credits_Prop      == [][C07_Credits_Step]_vars
C07_Coins_Prop        == [][C07_Coins_Step]_vars
C07_NoOtherCoins_Prop == [][C07_NoOtherCoins_Step]_vars

\* ================================================================== C11
C11_PutOnlyIf_Step ==
  EvIs("Put") =>
    /\ HasBasket(st, ev'.m.basket_denom)
    /\ \A i \in DOMAIN ev'.m.credits :
         LET e == ev'.m.credits[i] IN
         /\ HasBatchDenom(st, e.denom)
         /\ BatchResolvable(st, BatchByDenom(st, e.denom))
         /\ PutAdmissible(st, BasketByDenom(st, ev'.m.basket_denom), BatchByDenom(st, e.denom))

\* the documented precondition of Put: basket exists, every entry admissible
\* and positive, and the owner holds the (cumulated) amounts
PrePut(s, m) ==
  /\ Len(m.credits) > 0
  /\ HasBasket(s, m.basket_denom)
  /\ \A i \in DOMAIN m.credits :
       LET e == m.credits[i] IN
       /\ e.amt > 0
       /\ HasBatchDenom(s, e.denom)
       /\ BatchResolvable(s, BatchByDenom(s, e.denom))
       /\ PutAdmissible(s, BasketByDenom(s, m.basket_denom), BatchByDenom(s, e.denom))
       /\ BalOf(s, m.owner, BatchByDenom(s, e.denom).key).t >=
            SumOver({j \in DOMAIN m.credits : m.credits[j].denom = e.denom},
                    LAMBDA j : m.credits[j].amt)

C11_PutIf_Step ==
  (ev'.type = "Put" /\ ev'.dom = "spec" /\ WellFormed(ev'.m) /\ PrePut(st, ev'.m)) => ev'.ok

C11_OldestFirst_Step ==
  EvIs("Take") =>
    LET cs  == ev'.resp.credits
        k   == BasketByDenom(st, ev'.m.basket_denom)
        row(d) == CHOOSE x \in st.bbal : x.bid = k.id /\ x.denom = d
        has(d) == \E x \in st.bbal : x.bid = k.id /\ x.denom = d
        n   == Len(cs)
    IN /\ n > 0
       /\ \A i \in 1..n : has(cs[i].denom) /\ cs[i].amt > 0 /\ cs[i].amt <= row(cs[i].denom).amt
       \* oldest first along the released list
       /\ \A i, j \in 1..n : i < j => row(cs[i].denom).start <= row(cs[j].denom).start
       \* every batch before the last is drained completely
       /\ \A i \in 1..(n - 1) : cs[i].amt = row(cs[i].denom).amt
       \* nothing older than a touched batch stays behind
       /\ \A x \in st'.bbal : \A i \in 1..n :
            (x.bid = k.id /\ x.denom # cs[n].denom) => x.start >= row(cs[i].denom).start
       \* the basket rows change exactly by what was released
       /\ \A x \in st.bbal :
            LET rel == SumOver({i \in 1..n : x.bid = k.id /\ cs[i].denom = x.denom}, LAMBDA i : cs[i].amt) IN
            IF rel = 0 THEN x \in st'.bbal
            ELSE IF rel = x.amt THEN ~HasBBal(st', x.bid, x.denom)
            ELSE HasBBal(st', x.bid, x.denom) /\ BBalOf(st', x.bid, x.denom) = [x EXCEPT !.amt = @ - rel]

C11_AutoRetire_Step ==
  EvIs("Take") =>
    LET k  == BasketByDenom(st, ev'.m.basket_denom)
        cs == ev'.resp.credits
        retire == ev'.m.retire
    IN /\ (~k.dar) => retire
       /\ \A i \in DOMAIN cs :
            LET bk == BatchByDenom(st, cs[i].denom).key
                got == SumOver({j \in DOMAIN cs : cs[j].denom = cs[i].denom}, LAMBDA j : cs[j].amt)
            IN IF retire
               THEN /\ BalOf(st', ev'.m.owner, bk).r = BalOf(st, ev'.m.owner, bk).r + got
                    /\ BalOf(st', ev'.m.owner, bk).t = BalOf(st, ev'.m.owner, bk).t
                    /\ SupplyOrZero(st', bk).r = SupplyOrZero(st, bk).r + got
                    /\ SupplyOrZero(st', bk).t = SupplyOrZero(st, bk).t - got
               ELSE /\ BalOf(st', ev'.m.owner, bk).t = BalOf(st, ev'.m.owner, bk).t + got
                    /\ BalOf(st', ev'.m.owner, bk).r = BalOf(st, ev'.m.owner, bk).r
                    /\ SupplyOrZero(st', bk) = SupplyOrZero(st, bk)

C11_PutOnlyIf_Prop   == [][C11_PutOnlyIf_Step]_vars
C11_PutIf_Prop       == [][C11_PutIf_Step]_vars
C11_OldestFirst_Prop == [][C11_OldestFirst_Step]_vars
C11_AutoRetire_Prop  == [][C11_AutoRetire_Step]_vars

\* ================================================================== C12
C12_Expiry_Step ==
  IsBlockEv(ev') =>
    LET T == ev'.m.t
        gone == {o \in st.orders : o.exp.set /\ o.exp.t <= T}
    IN /\ ev'.ok
       /\ \A o \in st'.orders : ~o.exp.set \/ o.exp.t > T
       /\ st'.orders = st.orders \ gone
       /\ \A r \in st.bal :
            LET q == SumOver({o \in gone : o.seller = r.a /\ o.bk = r.bk}, LAMBDA o : o.qty) IN
            BalOf(st', r.a, r.bk) = [r EXCEPT !.e = @ - q, !.t = @ + q]
       /\ \A r \in st'.bal : HasBal(st, r.a, r.bk)
       /\ OnlyChanged({"now", "orders", "bal"})

C12_NoBuyExpired_Step ==
  EvIs("BuyDirect") =>
    \A i \in DOMAIN ev'.m.orders :
      HasOrder(st, ev'.m.orders[i].id) =>
        LET o == OrderById(st, ev'.m.orders[i].id) IN ~o.exp.set \/ o.exp.t > st.now

\* no open order is already expired with respect to the current block time
C12_NoneExpired == \A o \in st.orders : ~o.exp.set \/ o.exp.t > st.now

C12_Expiry_Prop       == [][C12_Expiry_Step]_vars
C12_NoBuyExpired_Prop == [][C12_NoBuyExpired_Step]_vars

=============================================================================
