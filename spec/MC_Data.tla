------------------------------ MODULE MC_Data ------------------------------
(***************************************************************************)
(* Bounded instances of Data.tla: a handful of IRIs, two or three signers, *)
(* block times advancing, and WEAK ID hash functions given as constant     *)
(* tables so that collisions are the norm:                                 *)
(*   "collide"  all IRIs have the same hash                                *)
(*   "buckets"  two buckets                                                *)
(*   "equal"    all bytes inside a hash are equal, so successive collision *)
(*              counters yield the same candidate id again                 *)
(*   "inj"      pairwise different prefixes                                *)
(* minlen / hashlen are small, so the varint fallback is reached after     *)
(* hashlen - minlen collisions.                                            *)
(***************************************************************************)
EXTENDS Data, Randomization

CONSTANTS Iris, DUsers, DTicks, HashSel, MinLen, HashLen, MaxResolvers, Urls

\* a fixed enumeration of the IRIs ("i1" < "i2" < ...): position by name
Pos(iri) == CASE iri = "i1" -> 1 [] iri = "i2" -> 2 [] iri = "i3" -> 3 [] iri = "i4" -> 4
              [] iri = "i5" -> 5 [] OTHER -> 6

HashTable ==
  [iri \in Iris |->
     CASE HashSel = "collide" -> [k \in 1..HashLen |-> k]
       [] HashSel = "buckets" -> [k \in 1..HashLen |-> IF k = 1 THEN Pos(iri) % 2 ELSE k]
       [] HashSel = "equal"   -> [k \in 1..HashLen |-> 7]
       [] OTHER               -> [k \in 1..HashLen |-> IF k = 1 THEN Pos(iri) ELSE k]]

DataGenesis ==
  [now |-> 6, ids |-> {}, anchors |-> {}, attests |-> {}, resolvers |-> {}, dres |-> {}, rseq |-> 0,
   hash |-> HashTable, minlen |-> MinLen, hashlen |-> HashLen]

DSeqs(S) == {<<x>> : x \in S} \cup {<<x, y>> : x \in S, y \in S}

DMsgs(d, T) ==
  CASE T = "Anchor" -> {[type |-> T, sender |-> a, iri |-> i] : a \in DUsers, i \in Iris}
    [] T = "Attest" -> {[type |-> T, attestor |-> a, iris |-> is] : a \in DUsers, is \in DSeqs(Iris)}
    [] T = "DefineResolver" ->
         IF Cardinality(d.resolvers) >= MaxResolvers THEN {} ELSE
         {[type |-> T, definer |-> a, url |-> u, public |-> p] : a \in DUsers, u \in Urls, p \in BOOLEAN}
    [] T = "RegisterResolver" ->
         {[type |-> T, signer |-> a, rid |-> r, iris |-> is]
            : a \in DUsers, r \in 1..(MaxResolvers + 1), is \in DSeqs(Iris)}
    [] T = "BeginBlock" -> {[type |-> T, t |-> t] : t \in {x \in DTicks : x > d.now}}
    [] OTHER -> {}

DTypes == {"Anchor", "Attest", "DefineResolver", "RegisterResolver", "BeginBlock"}

Init == DataInitWith(DataGenesis)
Next == \E T \in DTypes : \E m \in DMsgs(dst, T) : DataStep(m)
Spec == Init /\ [][Next]_dvars
View == dst

\* generation: lists of up to four IRIs (repeats included) by concatenating drawn messages
GenNext ==
  \E T \in RandomSubset(1, {X \in DTypes : DMsgs(dst, X) # {}}) :
    LET ms   == DMsgs(dst, T)
        good == {m \in ms : DataApply(dst, m).ok}
        pick == IF good # {} /\ RandomElement(1..6) > 1 THEN good ELSE ms
    IN \E m \in RandomSubset(1, pick) : \E m2 \in RandomSubset(1, ms) :
         DataStep(IF T \in {"Attest", "RegisterResolver"} /\ RandomElement(1..2) = 1
                  THEN [m EXCEPT !.iris = @ \o m2.iris] ELSE m)

\* the probe loop terminates: bounded by the number of IRIs plus the hash length
\* (TLC would not return from Probe otherwise); every id is one of the candidates
C16_IdsAreCandidates ==
  \A x \in dst.ids : \E c \in 0..(Cardinality(Iris) + HashLen) : x.id = CandidateId(dst, x.iri, c)

=============================================================================
