-------------------------------- MODULE Bank --------------------------------
(***************************************************************************)
(* The part of x/bank the ecocredit keepers rely on.                       *)
(*   s.coins   : set of [a, d, n]  (n > 0; x/bank deletes zero balances)   *)
(*   s.csupply : set of [d, n]     (n > 0)                                 *)
(* Two flavours of every transfer, because the keepers build their Coins   *)
(* values in two ways: sdk.NewCoins(...) drops zero coins (an empty Coins  *)
(* is a valid no-op), a literal sdk.Coins{c} keeps a zero coin and x/bank  *)
(* rejects it (Coins.IsValid() is false).                                  *)
(***************************************************************************)
EXTENDS Types

CoinBal(s, a, d) ==
  IF \E r \in s.coins : r.a = a /\ r.d = d
  THEN (CHOOSE r \in s.coins : r.a = a /\ r.d = d).n ELSE 0

CoinSupply(s, d) ==
  IF \E r \in s.csupply : r.d = d
  THEN (CHOOSE r \in s.csupply : r.d = d).n ELSE 0

SetCoinBal(s, a, d, n) ==
  [s EXCEPT !.coins = {r \in @ : ~(r.a = a /\ r.d = d)}
                        \cup (IF n > 0 THEN {[a |-> a, d |-> d, n |-> n]} ELSE {})]

SetCoinSupply(s, d, n) ==
  [s EXCEPT !.csupply = {r \in @ : r.d # d}
                        \cup (IF n > 0 THEN {[d |-> d, n |-> n]} ELSE {})]

\* literal Coins{c}: zero or negative amount is invalid, funds must suffice
SendStrict(s, from, to, d, n) ==
  IF n <= 0 \/ CoinBal(s, from, d) < n THEN Fail(s)
  ELSE IF from = to THEN Ok(s)
  ELSE Ok(SetCoinBal(SetCoinBal(s, from, d, CoinBal(s, from, d) - n),
                     to, d, CoinBal(s, to, d) + n))

\* sdk.NewCoins(c): a zero amount yields the empty Coins, which is a no-op;
\* a negative amount panics in sdk.NewCoin (recovered by runTx => failure)
SendLoose(s, from, to, d, n) ==
  IF n < 0 THEN Fail(s) ELSE IF n = 0 THEN Ok(s) ELSE SendStrict(s, from, to, d, n)

BurnStrict(s, a, d, n) ==
  IF n <= 0 \/ CoinBal(s, a, d) < n THEN Fail(s)
  ELSE Ok(SetCoinSupply(SetCoinBal(s, a, d, CoinBal(s, a, d) - n),
                        d, CoinSupply(s, d) - n))

MintStrict(s, a, d, n) ==
  IF n <= 0 THEN Fail(s)
  ELSE Ok(SetCoinSupply(SetCoinBal(s, a, d, CoinBal(s, a, d) + n),
                        d, CoinSupply(s, d) + n))

\* account -> module account -> burnt (class fee, basket fee, BurnRegen, Take)
SendAndBurnStrict(s, from, mod, d, n) ==
  LET r1 == SendStrict(s, from, mod, d, n) IN
  IF ~r1.ok THEN Fail(s)
  ELSE LET r2 == BurnStrict(r1.s, mod, d, n) IN IF r2.ok THEN r2 ELSE Fail(s)

\* a plain x/bank MsgSend between users (lets basket tokens and coins move)
H_BankSend(s, m) ==
  IF m.n <= 0 THEN Fail(s)
  ELSE Atomic(s, SendStrict(s, m.from, m.to, m.denom, m.n))

=============================================================================
