#!/bin/bash
# usage: run_mc.sh <cfg-name> [timeout-s] [extra tlc args...]
cfg=$1; to=${2:-600}; shift; shift
d=$(mktemp -d /tmp/mc.XXXXXX)
cp /verif/spec/*.tla $d/ && cp /verif/spec/cfg/$cfg.cfg $d/MC_Eco.cfg && cd $d
timeout $to tlc -workers 16 -metadir $d/md "$@" MC_Eco.tla > $d/out.txt 2>&1
rc=$?
grep -v "^Linting\|^Semantic\|^Parsing" $d/out.txt | tail -${TAILN:-25}
echo "rc=$rc dir=$d"
