-------------------------------- MODULE Data --------------------------------
(***************************************************************************)
(* x/data: anchoring, attestation, resolvers.                              *)
(*                                                                         *)
(* State record d:                                                         *)
(*   now      block time (tick)                                            *)
(*   ids      set of [id, iri]      DataID table; id is a tuple of bytes   *)
(*   anchors  set of [id, t]        DataAnchor: first anchoring time       *)
(*   attests  set of [id, a, t]     DataAttestor: (attestor, time) once    *)
(*   resolvers set of [id, url, manager]   manager "" = public resolver     *)
(*   dres     set of [id, rid]      DataResolver: data registered to a      *)
(*                                  resolver                                *)
(*   rseq     last auto-increment resolver id                              *)
(*   hash     the ID hash function as a table  IRI -> tuple of bytes       *)
(*   minlen, hashlen   parameters of the ID scheme (production: 4, 8)      *)
(*                                                                         *)
(* Messages name data by their IRIs (the harness converts content hashes   *)
(* with the chain's own ToIRI; that conversion is property C15).           *)
(*                                                                         *)
(* The compact ID of an IRI is found by probing: candidate c = 0, 1, ...   *)
(*   c < hashlen - minlen :  H[1..minlen] \o <<H[c+1]>>                    *)
(*   otherwise            :  H[1..minlen] \o zeros \o uvarint(c)           *)
(* until the slot is free (insert) or already holds this IRI.              *)
(***************************************************************************)
EXTENDS Types, Known

HashOf(d, iri) == d.hash[iri]

Zeros(n) == [i \in 1..n |-> 0]
\* unsigned varint of c (c < 16384 is more than any bounded run needs)
Uvarint(c) == IF c < 128 THEN <<c>> ELSE <<128 + (c % 128), c \div 128>>

CandidateId(d, iri, c) ==
  LET H == HashOf(d, iri) IN
  IF d.minlen + c < d.hashlen
  THEN SubSeq(H, 1, d.minlen) \o <<H[c + 1]>>
  ELSE SubSeq(H, 1, d.minlen) \o Zeros(d.hashlen - d.minlen) \o Uvarint(c)

IdTaken(d, id) == \E x \in d.ids : x.id = id
IriOfId(d, id) == (CHOOSE x \in d.ids : x.id = id).iri

RECURSIVE Probe(_, _, _)
\* [d, id]: the state after getOrCreateDataID and the id found
Probe(d, iri, c) ==
  LET id == CandidateId(d, iri, c) IN
  IF ~IdTaken(d, id) THEN [d |-> [d EXCEPT !.ids = @ \cup {[id |-> id, iri |-> iri]}], id |-> id]
  ELSE IF IriOfId(d, id) = iri THEN [d |-> d, id |-> id]
  ELSE Probe(d, iri, c + 1)

\* anchorAndGetIRI: id, then the anchor row with the block time if absent
AnchorOne(d, iri) ==
  LET p  == Probe(d, iri, 0)
      d1 == p.d
  IN IF \E a \in d1.anchors : a.id = p.id
     THEN [d |-> d1, id |-> p.id, t |-> (CHOOSE a \in d1.anchors : a.id = p.id).t]
     ELSE [d |-> [d1 EXCEPT !.anchors = @ \cup {[id |-> p.id, t |-> d1.now]}], id |-> p.id, t |-> d1.now]

\* m: [sender, iri]
H_Anchor(d, m) ==
  LET r == AnchorOne(d, m.iri) IN OkR(r.d, [iri |-> m.iri, t |-> r.t])

RECURSIVE AttestFold(_, _, _, _, _)
AttestFold(d, a, iris, i, new) ==
  IF i > Len(iris) THEN OkR(d, [iris |-> new, t |-> d.now])
  ELSE LET r == AnchorOne(d, iris[i]) IN
       IF \E x \in r.d.attests : x.id = r.id /\ x.a = a
       THEN AttestFold(r.d, a, iris, i + 1, new)
       ELSE AttestFold([r.d EXCEPT !.attests = @ \cup {[id |-> r.id, a |-> a, t |-> d.now]}],
                       a, iris, i + 1, Append(new, iris[i]))

\* m: [attestor, iris]
H_Attest(d, m) ==
  IF Len(m.iris) = 0 THEN Fail(d) ELSE AttestFold(d, m.attestor, m.iris, 1, <<>>)

\* m: [definer, url, public]
H_DefineResolver(d, m) ==
  LET manager == IF m.public THEN "" ELSE m.definer IN
  IF \E r \in d.resolvers : r.url = m.url /\ r.manager = manager THEN Fail(d)
  ELSE OkR([d EXCEPT !.resolvers = @ \cup {[id |-> d.rseq + 1, url |-> m.url, manager |-> manager]},
                     !.rseq = @ + 1],
           [resolver_id |-> d.rseq + 1])

RECURSIVE RegisterFold(_, _, _, _)
RegisterFold(d, rid, iris, i) ==
  IF i > Len(iris) THEN Ok(d)
  ELSE LET r == AnchorOne(d, iris[i]) IN
       RegisterFold([r.d EXCEPT !.dres = @ \cup {[id |-> r.id, rid |-> rid]}], rid, iris, i + 1)

\* m: [signer, rid, iris]
H_RegisterResolver(d, m) ==
  IF Len(m.iris) = 0 \/ ~\E r \in d.resolvers : r.id = m.rid THEN Fail(d) ELSE
  LET r == CHOOSE x \in d.resolvers : x.id = m.rid IN
  IF r.manager # "" /\ r.manager # m.signer THEN Fail(d)
  ELSE RegisterFold(d, m.rid, m.iris, 1)

H_DataBlock(d, m) == Ok([d EXCEPT !.now = m.t])

DataApply(d, m) ==
  IF "wf" \in DOMAIN m /\ ~m.wf THEN Fail(d) ELSE
  CASE m.type = "Anchor"           -> H_Anchor(d, m)
    [] m.type = "Attest"           -> H_Attest(d, m)
    [] m.type = "DefineResolver"   -> H_DefineResolver(d, m)
    [] m.type = "RegisterResolver" -> H_RegisterResolver(d, m)
    [] m.type = "BeginBlock"       -> H_DataBlock(d, m)
    [] OTHER                       -> Ok(d)

DataSigner(m) ==
  CASE m.type = "Anchor" -> m.sender
    [] m.type = "Attest" -> m.attestor
    [] m.type = "DefineResolver" -> m.definer
    [] m.type = "RegisterResolver" -> m.signer
    [] OTHER -> "none"

VARIABLES dst, dev
dvars == <<dst, dev>>

DataStep(m) ==
  LET r == DataApply(dst, m) IN
  /\ dst' = r.s
  /\ dev' = [type |-> m.type, m |-> m, ok |-> r.ok, resp |-> r.resp, signers |-> {DataSigner(m)}, dom |-> "spec"]

DataInitWith(d0) ==
  /\ dst = d0
  /\ dev = [type |-> "Init", m |-> [type |-> "Init"], ok |-> TRUE, resp |-> NoResp, signers |-> {}, dom |-> "spec"]

\* ================================================================== C16
C16_IdInjective ==
  \A x, y \in dst.ids : (x.id = y.id \/ x.iri = y.iri) => x = y

C16_RowsReferToIds ==
  /\ \A a \in dst.anchors : IdTaken(dst, a.id)
  /\ \A a \in dst.attests : IdTaken(dst, a.id) /\ \E b \in dst.anchors : b.id = a.id
  /\ \A x \in dst.dres : IdTaken(dst, x.id) /\ \E r \in dst.resolvers : r.id = x.rid
  /\ \A x, y \in dst.anchors : x.id = y.id => x = y
  /\ \A x, y \in dst.attests : (x.id = y.id /\ x.a = y.a) => x = y
  /\ \A x, y \in dst.resolvers : (x.id = y.id \/ (x.url = y.url /\ x.manager = y.manager)) => x = y

\* nothing anchored, attested, defined or registered ever changes or disappears
C16_Stable_Step ==
  /\ dst.ids \subseteq dst'.ids
  /\ dst.anchors \subseteq dst'.anchors
  /\ dst.attests \subseteq dst'.attests
  /\ dst.resolvers \subseteq dst'.resolvers
  /\ dst.dres \subseteq dst'.dres

\* a new anchor / attestation carries the block time of the message that made it
C16_FirstTime_Step ==
  /\ \A a \in dst'.anchors \ dst.anchors : a.t = dst.now /\ dev'.ok
  /\ \A a \in dst'.attests \ dst.attests :
       a.t = dst.now /\ dev'.ok /\ dev'.type = "Attest" /\ a.a \in dev'.signers

\* the answers: Anchor reports the stored (first) time; Attest lists only new IRIs
C16_Responses_Step ==
  /\ (dev'.ok /\ dev'.type = "Anchor") =>
       \E x \in dst'.ids : x.iri = dev'.m.iri /\
          \E a \in dst'.anchors : a.id = x.id /\ dev'.resp = [iri |-> dev'.m.iri, t |-> a.t]
  /\ (dev'.ok /\ dev'.type = "Attest") =>
       /\ dev'.resp.t = dst.now
       /\ \A i \in DOMAIN dev'.resp.iris :
            \E x \in dst'.ids : x.iri = dev'.resp.iris[i] /\
              ~\E old \in dst.attests : old.id = x.id /\ old.a = dev'.m.attestor

\* a successful message has anchored (attested, registered) EVERY piece of data it names:
\* "the block time of the first anchoring" is the block time of the first successful
\* message that names the data, so none may be skipped silently
C16_Effect_Step ==
  LET Anchored(iri) == \E x \in dst'.ids : x.iri = iri /\ \E a \in dst'.anchors : a.id = x.id
  IN
  /\ (dev'.ok /\ dev'.type = "Anchor") => Anchored(dev'.m.iri)
  /\ (dev'.ok /\ dev'.type = "Attest") =>
       \A i \in DOMAIN dev'.m.iris :
         /\ Anchored(dev'.m.iris[i])
         /\ \E x \in dst'.ids : x.iri = dev'.m.iris[i] /\
              \E t \in dst'.attests : t.id = x.id /\ t.a = dev'.m.attestor
  /\ (dev'.ok /\ dev'.type = "RegisterResolver") =>
       \A i \in DOMAIN dev'.m.iris :
         /\ Anchored(dev'.m.iris[i])
         /\ \E x \in dst'.ids : x.iri = dev'.m.iris[i] /\
              \E r \in dst'.dres : r.id = x.id /\ r.rid = dev'.m.rid

\* only a resolver's manager registers data to a non-public resolver
C16_ManagerOnly_Step ==
  (dev'.ok /\ dev'.type = "RegisterResolver") =>
    \E r \in dst.resolvers : r.id = dev'.m.rid /\ (r.manager = "" \/ r.manager \in dev'.signers)

\* only the messages that name a resolver / data touch them (data part of C08)
C16_Footprint_Step ==
  /\ dst'.dres # dst.dres => dev'.ok /\ dev'.type = "RegisterResolver" /\
        \A x \in dst'.dres \ dst.dres : x.rid = dev'.m.rid
  /\ dst'.resolvers # dst.resolvers => dev'.ok /\ dev'.type = "DefineResolver"
  /\ ~dev'.ok => (dst' = dst)

C16_Stable_Prop      == [][C16_Stable_Step]_dvars
C16_FirstTime_Prop   == [][C16_FirstTime_Step]_dvars
C16_Responses_Prop   == [][C16_Responses_Step]_dvars
C16_ManagerOnly_Prop == [][C16_ManagerOnly_Step]_dvars
C16_Effect_Prop      == [][C16_Effect_Step]_dvars
C16_Footprint_Prop   == [][C16_Footprint_Step]_dvars


\* ================================================================== C09 (data part)
\* model of the data module's genesis validation, as far as the abstraction can falsify it:
\* Resolver.Validate rejects an empty manager -- which is how a PUBLIC resolver is stored
\* (recorded finding public_resolver_genesis)
DataGenesisValid(d) == \A r \in d.resolvers : r.manager # ""
C09_DataValidGenesis == DataGenesisValid(dst) \/ "public_resolver_genesis" \in KnownKeys

\* ================================================================== C17 (data queries)
\* items: "iri|attestor" for attestations, decimal resolver ids for resolvers
LOCAL INSTANCE FiniteSets
DQOk(S) == [err |-> FALSE, items |-> S]
DQErr == [err |-> TRUE, items |-> {}]
KnownIri(d, iri) == \E x \in d.ids : x.iri = iri
IdOfIri(d, iri) == (CHOOSE x \in d.ids : x.iri = iri).id

DQExpect(d, q, arg) ==
  CASE q = "AttestationsByAttestor" ->
         DQOk({IriOfId(d, x.id) \o "|" \o x.a : x \in {y \in d.attests : y.a = arg}})
    [] q \in {"AttestationsByIRI", "AttestationsByHash"} ->
         IF ~KnownIri(d, arg) THEN DQErr
         ELSE DQOk({arg \o "|" \o x.a : x \in {y \in d.attests : y.id = IdOfIri(d, arg)}})
    [] q \in {"ResolversByIRI", "ResolversByHash"} ->
         IF ~KnownIri(d, arg) THEN DQErr
         ELSE DQOk({ToString(x.rid) : x \in {y \in d.dres : y.id = IdOfIri(d, arg)}})
    [] q = "ResolversByURL" -> DQOk({ToString(r.id) : r \in {y \in d.resolvers : y.url = arg}})
    [] OTHER -> DQErr

DSeqToSet(q) == {q[i] : i \in DOMAIN q}
DNoDupSeq(q) == \A i, j \in DOMAIN q : i # j => q[i] # q[j]

C17_DataListOK(d, x) ==
  LET e == DQExpect(d, x.q, x.arg)
      n == Cardinality(e.items)
  IN
  IF x.mode = "offset0" /\ ~e.err /\ x.offset >= n THEN TRUE
  ELSE
  /\ x.err = e.err
  /\ ~x.err =>
       /\ DNoDupSeq(x.items)
       /\ DSeqToSet(x.items) \subseteq e.items
       /\ IF x.mode = "offset0" THEN Len(x.items) = n - x.offset
          ELSE DSeqToSet(x.items) = e.items
       /\ x.total >= 0 => x.total = n
       /\ x.mode \in {"key", "offset", "reverse"} => x.pages * x.limit >= Len(x.items)

C17_DataSingleOK(d, x) ==
  CASE x.q \in {"AnchorByIRI", "AnchorByHash"} ->
         /\ ~x.err /\ x.riri = x.iri /\ x.same_hash      \* the anchored content hash comes back
         /\ KnownIri(d, x.iri)
         /\ \E a \in d.anchors : a.id = IdOfIri(d, x.iri) /\ a.t = x.t
    [] x.q = "Resolver" ->
         ~x.err /\ \E r \in d.resolvers : r.id = x.id /\ r.url = x.url /\ r.manager = x.manager
    \* ConvertIRIToHash / ConvertHashToIRI are stateless and inverse to each other
    [] x.q = "Convert" -> ~x.err /\ x.same_hash /\ x.riri = x.iri
    [] OTHER -> TRUE

=============================================================================
