----------------------------- MODULE MC_Intertx -----------------------------
EXTENDS Intertx, Randomization
CONSTANTS Owners, Conns, InnerMsgs, MaxSent

XMsgs(x, T) ==
  CASE T = "SubmitTx" -> IF Len(x.sent) >= MaxSent THEN {} ELSE
         {[type |-> T, owner |-> o, conn |-> c, msg |-> i] : o \in Owners, c \in Conns, i \in InnerMsgs}
    [] T = "SetChannel" ->
         {[type |-> T, owner |-> o, conn |-> c, active |-> a, cap |-> k]
            : o \in Owners, c \in Conns, a \in BOOLEAN, k \in BOOLEAN}
    [] T = "RegisterAccount" -> IF Len(x.regs) >= 1 THEN {} ELSE
         {[type |-> T, owner |-> o, conn |-> c, version |-> "v1"] : o \in Owners, c \in Conns}
    [] T = "BeginBlock" -> {[type |-> T, t |-> t] : t \in {7, 8} \ {x.now}}
    [] OTHER -> {}
XTypes == {"SubmitTx", "SetChannel", "RegisterAccount", "BeginBlock"}

Init == XInit
Next == \E T \in XTypes : \E m \in XMsgs(xst, T) : XStep(m)
Spec == Init /\ [][Next]_xvars
View == xst
GenNext ==
  \E T \in RandomSubset(1, {X \in XTypes : XMsgs(xst, X) # {}}) :
    LET ms == XMsgs(xst, T)
        good == {m \in ms : XApply(xst, m).ok}
        \* near misses: a submission that must fail although SOME owner has a usable channel
        \* on that connection (another account, or another spelling of the same account)
        near == {m \in ms : m.type = "SubmitTx" /\ ~XApply(xst, m).ok /\
                            \E k \in xst.chans \cap xst.caps : k.conn = m.conn}
        r    == RandomElement(1..8)
        pick == IF near # {} /\ r <= 3 THEN near
                ELSE IF good # {} /\ r <= 7 THEN good ELSE ms
    IN \E m \in RandomSubset(1, pick) : XStep(m)
=============================================================================
