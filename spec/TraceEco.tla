------------------------------ MODULE TraceEco ------------------------------
(***************************************************************************)
(* Trace specification: validates implementation traces recorded by the    *)
(* harness (trace.ndjson in the working directory; one line per step with  *)
(* the event, the full projected state and the observations) against the   *)
(* specification, in two layers (DESIGN.md 2.3):                           *)
(*                                                                         *)
(*  layer A  the property formulas of Props.tla, evaluated on the LOGGED   *)
(*           states and events (st, ev are assigned from the log, gh is    *)
(*           recomputed from the logged events) -- these decide verdicts;  *)
(*  layer B  conformance: the logged successor must be one of the          *)
(*           successors ApplySet(st, ev'.m) the specification allows, with *)
(*           the same outcome and response.  The verdict of each step is   *)
(*           kept in `conf`; a non-conforming step prints a DIVERGENCE     *)
(*           line and the trace continues from the logged state.           *)
(*                                                                         *)
(* Several traces are concatenated; an "init" line starts a new one.       *)
(***************************************************************************)
EXTENDS Props, Json, TLCExt, Known

TLog == ndJsonDeserialize("trace.ndjson")

VARIABLES l, ob, conf, ghs, base
tvars == <<st, ev, gh, l, ob, conf, ghs, base>>

ToSet(seq) == {seq[i] : i \in DOMAIN seq}

SetFields == {"ctypes", "classes", "issuers", "projects", "batches", "cseq", "pseq", "bseq",
              "bal", "supply", "origintx", "contracts", "creators", "chains", "baskets",
              "bclasses", "bbal", "orders", "markets", "denoms", "coins", "csupply"}

StateOf(j) == [f \in DOMAIN j |-> IF f \in SetFields THEN ToSet(j[f]) ELSE j[f]]

EvJ(j) == [type |-> j.type, m |-> j.m, ok |-> j.ok, resp |-> j.resp,
           signers |-> ToSet(j.signers), dom |-> j.dom]

\* ------------------------------------------------------------------ layer B
DiffFields(a, b) == {f \in DOMAIN a : f \notin DOMAIN b \/ a[f] # b[f]}

Conforms(pre, e, post) ==
  \E r \in ApplySet(pre, e.m) : r.ok = e.ok /\ r.s = post /\ r.resp = e.resp

\* what to print for a non-conforming step
Explain(pre, e, post) ==
  LET r == CHOOSE x \in ApplySet(pre, e.m) : TRUE IN
  [line |-> l + 1, type |-> e.type, spec_ok |-> r.ok, impl_ok |-> e.ok,
   fields |-> DiffFields(r.s, post), spec_resp |-> r.resp, impl_resp |-> e.resp,
   m |-> e.m]

\* ------------------------------------------------------------------ behaviour
TraceInit ==
  /\ l = 1
  /\ st = StateOf(TLog[1].st)
  /\ ev = EvJ(TLog[1].ev)
  /\ gh = GhostInit(StateOf(TLog[1].st))
  /\ ob = TLog[1].ob
  /\ conf = TRUE
  /\ ghs = GhostInit(StateOf(TLog[1].st))
  /\ base = StateOf(TLog[1].st)

TraceNext ==
  /\ l < Len(TLog)
  /\ l' = l + 1
  /\ LET ln == TLog[l + 1]
         \* a probe line logs only the tables that differ from the main state `base`;
         \* a restore line logs no state: the main state comes back
         post == IF ln.k = "restore" THEN base
                 ELSE IF ln.k = "probe"
                 THEN [f \in DOMAIN base |->
                         IF f \in DOMAIN ln.d
                         THEN (IF f \in SetFields THEN ToSet(ln.d[f]) ELSE ln.d[f])
                         ELSE base[f]]
                 ELSE StateOf(ln.st)
         e == EvJ(ln.ev)
     IN /\ st' = post
        /\ base' = IF ln.k \in {"probe", "restore"} THEN base ELSE post
        /\ ev' = e
        /\ ob' = ln.ob
        /\ IF ln.k = "init"
           THEN gh' = GhostInit(post) /\ conf' = TRUE /\ ghs' = gh'
           ELSE IF ln.k = "restore"
           \* back from a probe (a message tried on a throw-away branch of the state)
           THEN gh' = ghs /\ conf' = TRUE /\ ghs' = ghs
           ELSE /\ gh' = GhostNext(gh, st, e)
                /\ ghs' = IF ln.k = "probe" THEN gh ELSE gh'
                /\ conf' = Conforms(st, e, post)
                /\ (conf' \/ PrintT(<<"DIVERGENCE", Explain(st, e, post)>>))

TraceSpec == TraceInit /\ [][TraceNext]_tvars

\* every line must have been consumed (checked as POSTCONDITION; -workers 1)
Mark == TLCSet(1, l)
TraceAccepted == TLCGet(1) = Len(TLog)

\* ------------------------------------------------------------------ layer A
\* Step clauses over the logged steps; l changes in every step, so none of
\* them is skipped as stuttering.
NotReset == ev'.type \notin {"Init", "Restore"}

\* BEGIN GENERATED STEP WRAPPERS
T_C02_OnlyIssuers == [][NotReset => C02_OnlyIssuers_Step]_tvars
T_C02_SealedFrozen == [][NotReset => C02_SealedFrozen_Step]_tvars
T_C04_Permanence == [][NotReset => C04_Permanence_Step]_tvars
T_C03_Credits == [][NotReset => C03_Credits_Step]_tvars
T_C03_Coins == [][NotReset => C03_Coins_Step]_tvars
T_C03_PaidInAskDenom == [][NotReset => C03_PaidInAskDenom_Step]_tvars
T_C03_AskAsRequested == [][NotReset => C03_AskAsRequested_Step]_tvars
T_C03_Block == [][NotReset => C03_Block_Step]_tvars
T_C05_PutMints == [][NotReset => C05_PutMints_Step]_tvars
T_C05_TakeBurns == [][NotReset => C05_TakeBurns_Step]_tvars
T_C05_OnlyPutTake == [][NotReset => C05_OnlyPutTake_Step]_tvars
T_C06_DenomAllowedAtWrite == [][NotReset => C06_DenomAllowedAtWrite_Step]_tvars
T_C07_Orders == [][NotReset => C07_Orders_Step]_tvars
T_C07_Credits == [][NotReset => C07_Credits_Step]_tvars
T_C07_Coins == [][NotReset => C07_Coins_Step]_tvars
T_C07_NoOtherCoins == [][NotReset => C07_NoOtherCoins_Step]_tvars
T_C11_PutOnlyIf == [][NotReset => C11_PutOnlyIf_Step]_tvars
T_C11_PutIf == [][NotReset => C11_PutIf_TStep]_tvars
T_C11_OldestFirst == [][NotReset => C11_OldestFirst_Step]_tvars
T_C11_AutoRetire == [][NotReset => C11_AutoRetire_Step]_tvars
T_C12_Expiry == [][NotReset => C12_Expiry_Step]_tvars
T_C12_NoBuyExpired == [][NotReset => C12_NoBuyExpired_Step]_tvars
T_C12_ExpirationAsRequested == [][NotReset => C12_ExpirationAsRequested_Step]_tvars
T_C08_Authorised == [][NotReset => C08_Authorised_Step]_tvars
T_C08_Footprint == [][NotReset => C08_Footprint_Step]_tvars
T_C08_Effect == [][NotReset => C08_Effect_Step]_tvars
T_C08_SealedStaysSealed == [][NotReset => C08_SealedStaysSealed_Step]_tvars
T_C11_CriteriaAsSet == [][NotReset => C11_CriteriaAsSet_Step]_tvars
T_C13_ChainsAsSet == [][NotReset => C13_ChainsAsSet_Step]_tvars
T_C18_ParamsAsSet == [][NotReset => C18_ParamsAsSet_Step]_tvars
T_C13_AllowedSource == [][NotReset => C13_AllowedSource_Step]_tvars
T_C13_BindingPermanent == [][NotReset => C13_BindingPermanent_Step]_tvars
T_C13_ReceiveIntoBound == [][NotReset => C13_ReceiveIntoBound_Step]_tvars
T_C13_BridgeOut == [][NotReset => C13_BridgeOut_Step]_tvars
T_C14_Consecutive == [][NotReset => C14_Consecutive_Step]_tvars
T_C18_FeeExact == [][NotReset => C18_FeeExact_Step]_tvars
T_C18_NoFeatureDisabled == [][NotReset => C18_NoFeatureDisabled_TStep]_tvars
\* END GENERATED STEP WRAPPERS

\* observation-based clauses
\* C14: the chain's own validators accept every stored id, its parsers recover the parents' ids
T_C14_ParsersAgree == ("idcheck" \in DOMAIN ob) => Len(ob.idcheck) = 0
T_C01_WellFormed == Len(ob.malformed) = 0
T_C01_ChainInvariantAgrees == ob.inv_batch_supply = ""

T_C05_ChainInvariantAgrees == ob.inv_basket_supply = ""
\* the projector flags stored order quantities that are not plain credit amounts
T_C06_OrderQuantitiesWellFormed ==
  \A i \in DOMAIN ob.malformed : TRUE => Len(ob.malformed) = 0
T_C12_BlockNeverFails == IsBlockEv(ev) => (ev.ok /\ ~ob.panicked)

\* an operation whose documented preconditions hold does not make the handler
\* panic (runTx recovers a panic into an error) under any accepted parameters
T_C18_NoAbnormalAbort ==
  [][(NotReset /\ ev'.dom = "spec" /\ WellFormed(ev'.m) /\ PreOf(st, ev')) => ~ob'.panicked]_tvars

\* ---- C09: export / validate / import / re-export at the logged state
\* known finding (known_findings.txt, key batch_start_eq_end): MsgCreateBatch accepts
\* start date = end date, the Batch state validator rejects it
KF_batch_start_eq_end ==
  /\ ev.type = "ExportImport"
  /\ ob.validate_eco_table = "regen.ecocredit.v1.Batch"
  /\ \E b \in st.batches : b.start = b.end
T_KF_batch_start_eq_end == ~KF_batch_start_eq_end

T_C09_RoundTrip ==
  ev.type = "ExportImport" =>
    /\ ob.export_panic = "" /\ ob.import_panic = ""
    /\ \/ ob.validate_eco = ""
       \/ ("batch_start_eq_end" \in KnownKeys /\ KF_batch_start_eq_end)
    /\ ob.validate_data = ""
    /\ ob.reexport_equal
    /\ ob.inv_after_import = ""
\* the MODEL of the validators (Props!GenesisValid) agrees with the real validators at every
\* export observation: this binds C09_ValidGenesis, which TLC checks on all reachable states
\* of the bounded models, to the code
T_C09_ValidatorModel ==
  (ev.type = "ExportImport" /\ ob.export_panic = "") => ((ob.validate_eco = "") <=> GenesisValid(st))
\* the imported chain is in the same abstract state (and the behaviour goes on there)
T_C09_SameState == [][ev'.type = "ExportImport" => st' = st]_tvars

\* ---- C10: replicas (fresh processes, other restart schedules) log the same digests
T_C10_SameDigests ==
  ev.type = "Replica" =>
    \A i \in DOMAIN ob.replica_digests : ob.replica_digests[i] = ob.primary_digests
IsMsgEv(e) == ~IsBlockEv(e) /\ ~IsObsEv(e)
T_C10_FailedLeavesNoTrace ==
  [][(NotReset /\ IsMsgEv(ev') /\ ~ev'.ok) => (st' = st /\ ob'.kv_before = ob'.kv_after)]_tvars
\* a restart at a block boundary is invisible: the block step conforms like any other
T_C10_RestartInvisible ==
  [][(NotReset /\ IsBlockEv(ev')) => conf']_tvars

\* ---- C17: every logged query walk agrees with the specification's operators
T_C17_Lists ==
  ev.type = "Query" => \A i \in DOMAIN ob.lists : C17_ListOK(st, ob.lists[i]) /\ C17_AttrsOK(st, ob.lists[i])
T_C17_Singles ==
  ev.type = "Query" => \A i \in DOMAIN ob.singles : C17_SingleOK(st, ob.singles[i])

\* conformance as a checkable invariant (used by the self-test and the
\* strict conformance target)
T_Conformance == conf

=============================================================================
