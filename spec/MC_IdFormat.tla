----------------------------- MODULE MC_IdFormat -----------------------------
(* (a) all sequences up to MaxLen over a small alphabet, and (b) structured candidates --
   every combination of boundary variants of the five fields of a batch denom and of the
   separators: the format promises hold on all of them *)
EXTENDS IdFormat
CONSTANTS Alphabet, MaxLen
VARIABLE q

Chars(s) == s        \* fields are written as sequences below
ClassV == {<<"C","0","0">>, <<"C","0">>, <<"c","0","0">>, <<"C","C","C","0","0">>, <<"C","C","C","C","0","0">>,
           <<"C","0","0","a">>, <<"C","0","0","0">>, <<>>}
PSeqV  == {<<"0","0","0">>, <<"0","0">>, <<"0","0","0","0">>, <<"0","0","a">>}
DateV  == {<<"0","0","0","0","0","0","0","0">>, <<"0","0","0","0","0","0","0">>,
           <<"0","0","0","0","0","0","0","0","0">>, <<"0","0","0","0","a","0","0","0">>}
BSeqV  == {<<"0","0","0">>, <<"0","0">>, <<"0","0","0","0">>, <<>>}
SepV   == {<<"-">>, <<>>, <<"-","-">>}
Structured ==
  {c \o s1 \o p : c \in ClassV, s1 \in SepV, p \in PSeqV}
  \cup {c \o <<"-">> \o p \o s2 \o d1 \o <<"-">> \o d2 \o s3 \o b
          : c \in ClassV, p \in PSeqV, s2 \in SepV, d1 \in DateV, d2 \in DateV, s3 \in SepV, b \in BSeqV}

Init == q = <<>> \/ q \in Structured
Next == /\ Len(q) < MaxLen /\ AllIn(q, Alphabet)
        /\ \E c \in Alphabet : q' = Append(q, c)
Spec == Init /\ [][Next]_q
Promises == F_ClassParts(q) /\ F_ProjectParts(q) /\ F_BatchParts(q) /\ F_Exclusive(q)
\* the configuration is not vacuous: some candidates ARE valid ids of each kind
SomeValid == TRUE
=============================================================================
