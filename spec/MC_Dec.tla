------------------------------- MODULE MC_Dec -------------------------------
(* The functional specification keeps its own promises on ALL pairs of small decimals
   (coefficients 0..MaxC, exponents -MaxE..MaxE, both signs), checked against TLC's
   built-in integers where those suffice:
     the digit-sequence arithmetic agrees with integer arithmetic,
     x + y - y = x, x * y = y * x, q * b + r = a with r < b,
     comparison is the order of the integers, truncation goes toward zero,
     rounding is the identity below 34 digits *)
EXTENDS Dec
CONSTANTS MaxC, MaxE
VARIABLES x, y

RECURSIVE DigitsOf(_)
DigitsOf(n) == IF n = 0 THEN <<>> ELSE <<n % 10>> \o DigitsOf(n \div 10)
RECURSIVE ValN(_)
ValN(a) == IF a = <<>> THEN 0 ELSE Head(a) + 10 * ValN(Tail(a))
RECURSIVE Pow10(_)
Pow10(k) == IF k = 0 THEN 1 ELSE 10 * Pow10(k - 1)
\* integer value of a decimal scaled by 10^(2*MaxE) (so that it is an integer)
Scaled(d) == (IF d.neg THEN -1 ELSE 1) * ValN(d.c) * Pow10(d.e + 2 * MaxE)

Decs == {Mk(n, DigitsOf(c), e) : n \in BOOLEAN, c \in 0..MaxC, e \in -MaxE..MaxE}
Init == x \in Decs /\ y \in Decs
Next == FALSE /\ UNCHANGED <<x, y>>
Spec == Init /\ [][Next]_<<x, y>>

Sign(i) == IF i < 0 THEN -1 ELSE IF i > 0 THEN 1 ELSE 0
Promises ==
  /\ ValN(NAdd(x.c, y.c)) = ValN(x.c) + ValN(y.c)
  /\ ValN(NMul(x.c, y.c)) = ValN(x.c) * ValN(y.c)
  /\ NCmp(x.c, y.c) = Sign(ValN(x.c) - ValN(y.c))
  /\ (ValN(x.c) >= ValN(y.c)) => ValN(NSub(x.c, y.c)) = ValN(x.c) - ValN(y.c)
  /\ y.c # <<>> => LET dm == NDivMod(x.c, y.c) IN
                   /\ ValN(dm.q) = ValN(x.c) \div ValN(y.c) /\ ValN(dm.r) = ValN(x.c) % ValN(y.c)
  /\ DCmp(x, y) = Sign(Scaled(x) - Scaled(y))
  /\ Scaled(DAdd(x, y)) = Scaled(x) + Scaled(y)
  /\ Scaled(DSub(x, y)) = Scaled(x) - Scaled(y)
  /\ DCmp(DSub(DAdd(x, y), y), x) = 0
  /\ DCmp(DMul(x, y).d, DMul(y, x).d) = 0 /\ ~DMul(x, y).rounded
  /\ LET t == DTrim(x) IN t.e = 0 /\ t.neg = x.neg /\ ValN(t.c) = (ValN(x.c) * Pow10(x.e + 2 * MaxE)) \div Pow10(2 * MaxE)
  /\ Round(x) = [d |-> x, rounded |-> FALSE]
  \* an exact quotient multiplied back gives the dividend
  /\ (DQuo(x, y).ok /\ ~DQuo(x, y).rounded) => DCmp(DMulExactValue(DQuo(x, y).d, y), x) = 0
  /\ DQuo(x, y).ok = (y.c # <<>>)
  \* integer quotient and remainder: x = q*y + r, |r| < |y|, r has the sign of x (or is zero), q is an integer
  /\ DQuoInteger(x, y).ok = (y.c # <<>>) /\ DRem(x, y).ok = (y.c # <<>>)
  /\ y.c # <<>> => LET q == DQuoInteger(x, y).d  r == DRem(x, y).d IN
                   /\ q.e = 0
                   /\ DCmp(DAdd(DMulExactValue(q, y), r), x) = 0
                   /\ DCmp(Mk(FALSE, r.c, r.e), Mk(FALSE, y.c, y.e)) < 0
                   /\ (IsZeroD(r) \/ r.neg = x.neg)
=============================================================================
