------------------------------- MODULE MC_Eco -------------------------------
(***************************************************************************)
(* Bounded instances of Ecocredit for exhaustive model checking and for    *)
(* generating behaviours (simulation / state-graph dump).  One module, many *)
(* configurations: the constants switch message families and value domains *)
(* on and off so that each .cfg enumerates ONE dimension exhaustively       *)
(* (DESIGN.md section 8: credit/escrow, coin/settlement, roles, bridge,     *)
(* ids, params are never enumerated together).                             *)
(***************************************************************************)
EXTENDS Props, Randomization

CONSTANTS
  Users,        \* e.g. {"a1","a2","a3"}
  Spellings,    \* other spellings of Users' addresses usable in recipient-like fields, e.g. {"A1"} (Types!Acct)
  MsgTypes,     \* set of message type names enabled in this configuration
  Amts,         \* credit amounts used in message arguments, e.g. {0,1,2}
  Ticks,        \* block times (all > EpochTick)
  StartTicks,   \* batch start dates
  MaxBatches, MaxOrders, MaxClasses, MaxProjects, MaxBaskets,
  MaxIssued,    \* bound on the total issued per batch
  Genesis,      \* name of the initial state
  UnitN, UnitD, \* one abstract credit unit = UnitN/UnitD credits
  Asks, Bids, MaxFees, RateSel, CoinAmts, Denoms,
  ExpTicks,     \* expirations used by Sell / UpdateSellOrders
  CritSel,      \* which date criteria basket messages use (cfg files cannot hold records)
  Signers,      \* who may appear as a signer (Users, or Users + gov)
  Chains,       \* chain names used by bridge messages, e.g. {"polygon","Polygon","other"}
  OriginIds,    \* origin transaction ids, e.g. {"x1","x2"}
  FeeDenomsOffered, \* fee coins offered by CreateClass / BasketCreate
  MaxList,      \* 1 or 2: longest argument list in a message
  Depth         \* 0 = unbounded; otherwise a bound on the number of steps

Crits ==
  \* minimum start dates after, exactly at (tick 5) and before (tick 4) the Unix epoch
  CASE CritSel = "all"  -> {NoCrit, [kind |-> "min", v |-> 7], [kind |-> "min", v |-> 5], [kind |-> "min", v |-> 4],
                            [kind |-> "window", v |-> 3], [kind |-> "years", v |-> 1]}
    [] CritSel = "min"  -> {NoCrit, [kind |-> "min", v |-> 5], [kind |-> "min", v |-> 7]}
    [] OTHER            -> {NoCrit}

Rates ==
  CASE RateSel = "all"   -> {RateEmpty, RateZero, Rate(1, 20), Rate(1, 2), Rate(1, 1), Rate(3, 2)}
    [] RateSel = "exh"   -> {RateEmpty, RateZero, Rate(1, 2), Rate(3, 2)}
    [] RateSel = "some"  -> {RateEmpty, Rate(1, 10), Rate(1, 2)}
    [] RateSel = "valid" -> {RateEmpty, Rate(1, 20), Rate(1, 2), Rate(1, 1)}
    [] OTHER             -> {RateEmpty}

Seqs1(S) == {<<x>> : x \in S}
Seqs12(S) == IF MaxList < 2 THEN Seqs1(S) ELSE Seqs1(S) \cup {<<x, y>> : x \in S, y \in S}

\* ------------------------------------------------------------------ genesis states
DefaultGenesis ==
  [EmptyState EXCEPT
     !.unit   = [un |-> UnitN, ud |-> UnitD],
     !.ctypes = {[abbr |-> "C", name |-> "carbon", unit |-> "ton", prec |-> 6]},
     !.denoms = {[bank |-> "uregen", display |-> "regen", exp |-> 6]},
     !.coins  = {[a |-> u, d |-> d, n |-> 20] : u \in Users, d \in Denoms},
     !.csupply = {[d |-> d, n |-> 20 * Cardinality(Users)] : d \in Denoms}]

\* a chain with one class (admin a1, issuers a1,a2), one project, and fees off
ClassGenesis ==
  [DefaultGenesis EXCEPT
     !.classes  = {[key |-> 1, id |-> "C01", admin |-> "a1", meta |-> "m0", ct |-> "C"]},
     !.issuers  = {[ck |-> 1, a |-> "a1"], [ck |-> 1, a |-> "a2"]},
     !.cseq     = {[ct |-> "C", next |-> 2]},
     !.projects = {[key |-> 1, id |-> "C01-001", admin |-> "a1", ck |-> 1, jur |-> "US",
                    meta |-> "m0", ref |-> ""]},
     !.pseq     = {[ck |-> 1, next |-> 2]},
     !.seq      = [@ EXCEPT !.class = 1, !.project = 1]]

\* ... plus one open batch with credits spread over two users
BatchGenesis ==
  [ClassGenesis EXCEPT
     !.batches = {[key |-> 1, issuer |-> "a1", pk |-> 1,
                   denom |-> BatchDenomOf("C01-001", 7, 8, 1), meta |-> "m0",
                   start |-> 7, end |-> 8, issued |-> 6, open |-> TRUE, ck |-> 0]},
     !.bseq    = {[pk |-> 1, next |-> 2]},
     !.bal     = {[a |-> "a1", bk |-> 1, t |-> 2, r |-> 0, e |-> 0],
                  [a |-> "a2", bk |-> 1, t |-> 1, r |-> 1, e |-> 0]},
     !.supply  = {[bk |-> 1, t |-> 3, r |-> 1, c |-> 0]},
     !.seq     = [@ EXCEPT !.batch = 1]]

\* ... a second batch with an earlier start date, a second allowed denom
MarketGenesis ==
  [BatchGenesis EXCEPT
     !.denoms  = @ \cup {[bank |-> "uatom", display |-> "atom", exp |-> 6]},
     !.bal     = {[a |-> "a1", bk |-> 1, t |-> 3, r |-> 0, e |-> 0],
                  [a |-> "a2", bk |-> 1, t |-> 1, r |-> 1, e |-> 0]},
     !.supply  = {[bk |-> 1, t |-> 4, r |-> 1, c |-> 0]}]

\* two batches with different start dates (one before 1970), held by a1 and a2,
\* and one basket that accepts class C01 and does not auto-retire
BasketGenesis ==
  [ClassGenesis EXCEPT
     !.batches = {[key |-> 1, issuer |-> "a1", pk |-> 1,
                   denom |-> BatchDenomOf("C01-001", 7, 8, 1), meta |-> "m0",
                   start |-> 7, end |-> 8, issued |-> 6, open |-> FALSE, ck |-> 0],
                  [key |-> 2, issuer |-> "a1", pk |-> 1,
                   denom |-> BatchDenomOf("C01-001", 3, 8, 2), meta |-> "m0",
                   start |-> 3, end |-> 8, issued |-> 6, open |-> FALSE, ck |-> 0]},
     !.bseq    = {[pk |-> 1, next |-> 3]},
     !.bal     = {[a |-> "a1", bk |-> 1, t |-> 2, r |-> 0, e |-> 0],
                  [a |-> "a1", bk |-> 2, t |-> 2, r |-> 0, e |-> 0],
                  [a |-> "a2", bk |-> 1, t |-> 1, r |-> 0, e |-> 0]},
     !.supply  = {[bk |-> 1, t |-> 3, r |-> 0, c |-> 0], [bk |-> 2, t |-> 2, r |-> 0, c |-> 0]},
     !.baskets = {[id |-> 1, denom |-> BasketDenomOf("C", "NCT"), name |-> "NCT", dar |-> TRUE,
                   ct |-> "C", crit |-> NoCrit, curator |-> "a1"]},
     !.bclasses = {[bid |-> 1, cid |-> "C01"]},
     !.seq     = [@ EXCEPT !.batch = 2, !.basket = 1]]

\* the same chain later: the basket already holds credits of both batches (the
\* older batch with the smaller amount) and a1, a2 hold its tokens
Basket2Genesis ==
  [BasketGenesis EXCEPT
     !.bal     = {[a |-> "a1", bk |-> 1, t |-> 1, r |-> 0, e |-> 0],
                  [a |-> "a1", bk |-> 2, t |-> 1, r |-> 0, e |-> 0],
                  [a |-> "a2", bk |-> 1, t |-> 0, r |-> 0, e |-> 0]},
     !.bbal    = {[bid |-> 1, denom |-> BatchDenomOf("C01-001", 7, 8, 1), amt |-> 2, start |-> 7],
                  [bid |-> 1, denom |-> BatchDenomOf("C01-001", 3, 8, 2), amt |-> 1, start |-> 3]},
     !.coins   = @ \cup {[a |-> "a1", d |-> BasketDenomOf("C", "NCT"), n |-> 2],
                          [a |-> "a2", d |-> BasketDenomOf("C", "NCT"), n |-> 1]},
     !.csupply = @ \cup {[d |-> BasketDenomOf("C", "NCT"), n |-> 3]}]

\* the micro configuration credits2_e starts here: as basket2, but batch 1 is open, both
\* batches have a non-zero cancelled supply, and two accounts hold retired credits of batch 1
Credits2Genesis ==
  [Basket2Genesis EXCEPT
     !.batches = {[b EXCEPT !.open = (b.key = 1)] : b \in @},
     !.bal     = {[a |-> "a1", bk |-> 1, t |-> 1, r |-> 1, e |-> 0],
                  [a |-> "a1", bk |-> 2, t |-> 1, r |-> 0, e |-> 0],
                  [a |-> "a2", bk |-> 1, t |-> 1, r |-> 1, e |-> 0]},
     !.supply  = {[bk |-> 1, t |-> 4, r |-> 2, c |-> 1], [bk |-> 2, t |-> 2, r |-> 0, c |-> 1]}]

\* bridge family: polygon is an allowed chain, the batch is bound to contract k1
BridgeGenesis ==
  [BatchGenesis EXCEPT
     !.chains    = {"polygon"},
     !.contracts = {[bk |-> 1, ck |-> 1, contract |-> "k1"]},
     !.origintx  = {[ck |-> 1, id |-> "x1", src |-> "polygon"]}]

\* ... and a second, native batch (no contract) that a1 and a2 hold as well
Bridge2Genesis ==
  [BridgeGenesis EXCEPT
     !.batches = @ \cup {[key |-> 2, issuer |-> "a1", pk |-> 1,
                           denom |-> BatchDenomOf("C01-001", 5, 8, 2), meta |-> "m0",
                           start |-> 5, end |-> 8, issued |-> 6, open |-> TRUE, ck |-> 0]},
     !.bseq    = {[pk |-> 1, next |-> 3]},
     !.bal     = @ \cup {[a |-> "a1", bk |-> 2, t |-> 2, r |-> 0, e |-> 0],
                          [a |-> "a2", bk |-> 2, t |-> 1, r |-> 0, e |-> 0]},
     !.supply  = @ \cup {[bk |-> 2, t |-> 3, r |-> 0, c |-> 0]},
     !.seq     = [@ EXCEPT !.batch = 2]]

\* params family: a class fee and a basket fee are set, the allowlist is off
FeeGenesis ==
  [BatchGenesis EXCEPT
     !.classfee  = SomeCoin("uregen", 2),
     !.basketfee = SomeCoin("uregen", 3),
     !.denoms    = @ \cup {[bank |-> "uatom", display |-> "atom", exp |-> 6]}]

\* genesis validation accepts a zero-amount fee coin
ZeroFeeGenesis ==
  [BatchGenesis EXCEPT
     !.classfee  = SomeCoin("uregen", 0),
     !.basketfee = SomeCoin("uregen", 0)]

\* two projects; the batch whose denom sorts first (C01-001-...) is the YOUNGER one;
\* the basket holds credits of both
Basket3Genesis ==
  [BasketGenesis EXCEPT
     !.projects = @ \cup {[key |-> 2, id |-> "C01-002", admin |-> "a1", ck |-> 1, jur |-> "US",
                           meta |-> "m0", ref |-> ""]},
     !.pseq     = {[ck |-> 1, next |-> 3]},
     !.batches  = {[key |-> 1, issuer |-> "a1", pk |-> 1,
                    denom |-> BatchDenomOf("C01-001", 7, 8, 1), meta |-> "m0",
                    start |-> 7, end |-> 8, issued |-> 6, open |-> FALSE, ck |-> 0],
                   [key |-> 2, issuer |-> "a1", pk |-> 2,
                    denom |-> BatchDenomOf("C01-002", 3, 8, 1), meta |-> "m0",
                    start |-> 3, end |-> 8, issued |-> 6, open |-> FALSE, ck |-> 0]},
     !.bseq     = {[pk |-> 1, next |-> 2], [pk |-> 2, next |-> 2]},
     !.bal      = {[a |-> "a1", bk |-> 1, t |-> 1, r |-> 0, e |-> 0],
                   [a |-> "a1", bk |-> 2, t |-> 1, r |-> 0, e |-> 0]},
     !.supply   = {[bk |-> 1, t |-> 3, r |-> 0, c |-> 0], [bk |-> 2, t |-> 2, r |-> 0, c |-> 0]},
     !.bbal     = {[bid |-> 1, denom |-> BatchDenomOf("C01-001", 7, 8, 1), amt |-> 2, start |-> 7],
                   [bid |-> 1, denom |-> BatchDenomOf("C01-002", 3, 8, 1), amt |-> 1, start |-> 3]},
     !.coins    = @ \cup {[a |-> "a1", d |-> BasketDenomOf("C", "NCT"), n |-> 2],
                           [a |-> "a2", d |-> BasketDenomOf("C", "NCT"), n |-> 1]},
     !.csupply  = @ \cup {[d |-> BasketDenomOf("C", "NCT"), n |-> 3]},
     !.seq      = [@ EXCEPT !.project = 2]]

\* an open sell order of a1 (2 credits at ask 3 uregen, auto-retire optional) under a
\* SELLER-ONLY fee schedule, and under a BUYER-ONLY one with a stored zero seller rate
OrderGenesis(b, sl) ==
  [MarketGenesis EXCEPT
     !.bal     = {[a |-> "a1", bk |-> 1, t |-> 1, r |-> 0, e |-> 2],
                  [a |-> "a2", bk |-> 1, t |-> 1, r |-> 1, e |-> 0]},
     !.orders  = {[id |-> 1, seller |-> "a1", bk |-> 1, qty |-> 2, mid |-> 1, ask |-> 3, dar |-> TRUE,
                   exp |-> NoTime, maker |-> TRUE]},
     !.markets = {[id |-> 1, ct |-> "C", denom |-> "uregen"]},
     !.seq     = [@ EXCEPT !.order = 1, !.market = 1],
     !.feeparams = [buyer |-> b, seller |-> sl]]

\* expiry family: two batches, two markets (uregen = 1, uatom = 2); a1 and a2 have open
\* orders with expirations 8 and 9, one of them for batch 2 on market 1 and one for
\* batch 1 on market 2 (market id # batch key)
ExpiryGenesis ==
  [MarketGenesis EXCEPT
     !.batches = @ \cup {[key |-> 2, issuer |-> "a1", pk |-> 1,
                           denom |-> BatchDenomOf("C01-001", 3, 8, 2), meta |-> "m0",
                           start |-> 3, end |-> 8, issued |-> 6, open |-> TRUE, ck |-> 0]},
     !.bseq    = {[pk |-> 1, next |-> 3]},
     !.bal     = {[a |-> "a1", bk |-> 1, t |-> 1, r |-> 0, e |-> 2],
                  [a |-> "a1", bk |-> 2, t |-> 1, r |-> 1, e |-> 1],
                  [a |-> "a2", bk |-> 1, t |-> 1, r |-> 1, e |-> 1]},
     !.supply  = {[bk |-> 1, t |-> 5, r |-> 1, c |-> 0], [bk |-> 2, t |-> 2, r |-> 1, c |-> 0]},
     !.orders  = {[id |-> 1, seller |-> "a1", bk |-> 1, qty |-> 2, mid |-> 2, ask |-> 2, dar |-> TRUE,
                   exp |-> SomeTime(8), maker |-> TRUE],
                  [id |-> 2, seller |-> "a1", bk |-> 2, qty |-> 1, mid |-> 1, ask |-> 1, dar |-> FALSE,
                   exp |-> SomeTime(9), maker |-> TRUE],
                  [id |-> 3, seller |-> "a2", bk |-> 1, qty |-> 1, mid |-> 1, ask |-> 3, dar |-> TRUE,
                   exp |-> NoTime, maker |-> TRUE]},
     !.markets = {[id |-> 1, ct |-> "C", denom |-> "uregen"], [id |-> 2, ct |-> "C", denom |-> "uatom"]},
     !.seq     = [@ EXCEPT !.batch = 2, !.order = 3, !.market = 2]]

\* ids beyond the zero-padded width and ids that are string prefixes of one another
\* (C10 / C100, C10-100 / C10-1000), a second credit type, sequences about to widen
\* (the next class of type C is C101, the next project of C10 is C10-1001, the next
\* batch of C10-1000 is ...-1000), a basket that admits C10 only
WideGenesis ==
  LET b1 == BatchDenomOf("C10-100", 7, 8, 1)
      b2 == BatchDenomOf("C10-1000", 7, 8, 999)
      b3 == BatchDenomOf("C100-001", 5, 8, 1)
      b4 == BatchDenomOf("BIO01-001", 7, 8, 1)
  IN
  [DefaultGenesis EXCEPT
     !.ctypes   = @ \cup {[abbr |-> "BIO", name |-> "biodiversity", unit |-> "ha", prec |-> 6]},
     !.classes  = {[key |-> 1, id |-> "C10", admin |-> "a1", meta |-> "m0", ct |-> "C"],
                   [key |-> 2, id |-> "C100", admin |-> "a2", meta |-> "m0", ct |-> "C"],
                   [key |-> 3, id |-> "BIO01", admin |-> "a1", meta |-> "m0", ct |-> "BIO"]},
     !.issuers  = {[ck |-> 1, a |-> "a1"], [ck |-> 2, a |-> "a2"], [ck |-> 2, a |-> "a1"], [ck |-> 3, a |-> "a1"]},
     !.cseq     = {[ct |-> "C", next |-> 101], [ct |-> "BIO", next |-> 2]},
     !.projects = {[key |-> 1, id |-> "C10-100", admin |-> "a1", ck |-> 1, jur |-> "US", meta |-> "m0", ref |-> "r1"],
                   [key |-> 2, id |-> "C10-1000", admin |-> "a1", ck |-> 1, jur |-> "US", meta |-> "m0", ref |-> ""],
                   [key |-> 3, id |-> "C100-001", admin |-> "a2", ck |-> 2, jur |-> "US", meta |-> "m0", ref |-> "r1"],
                   [key |-> 4, id |-> "BIO01-001", admin |-> "a1", ck |-> 3, jur |-> "US", meta |-> "m0", ref |-> ""]},
     !.pseq     = {[ck |-> 1, next |-> 1001], [ck |-> 2, next |-> 2], [ck |-> 3, next |-> 2]},
     !.batches  = {[key |-> 1, issuer |-> "a1", pk |-> 1, denom |-> b1, meta |-> "m0",
                    start |-> 7, end |-> 8, issued |-> 6, open |-> TRUE, ck |-> 0],
                   [key |-> 2, issuer |-> "a1", pk |-> 2, denom |-> b2, meta |-> "m0",
                    start |-> 7, end |-> 8, issued |-> 6, open |-> FALSE, ck |-> 0],
                   [key |-> 3, issuer |-> "a2", pk |-> 3, denom |-> b3, meta |-> "m0",
                    start |-> 5, end |-> 8, issued |-> 6, open |-> TRUE, ck |-> 0],
                   [key |-> 4, issuer |-> "a1", pk |-> 4, denom |-> b4, meta |-> "m0",
                    start |-> 7, end |-> 8, issued |-> 6, open |-> FALSE, ck |-> 0]},
     !.bseq     = {[pk |-> 1, next |-> 2], [pk |-> 2, next |-> 1000], [pk |-> 3, next |-> 2], [pk |-> 4, next |-> 2]},
     !.bal      = {[a |-> "a1", bk |-> 1, t |-> 2, r |-> 0, e |-> 0],
                   [a |-> "a2", bk |-> 1, t |-> 1, r |-> 1, e |-> 0],
                   [a |-> "a1", bk |-> 2, t |-> 2, r |-> 0, e |-> 0],
                   [a |-> "a2", bk |-> 3, t |-> 2, r |-> 0, e |-> 0],
                   [a |-> "a1", bk |-> 3, t |-> 1, r |-> 0, e |-> 0],
                   [a |-> "a1", bk |-> 4, t |-> 2, r |-> 0, e |-> 0]},
     !.supply   = {[bk |-> 1, t |-> 3, r |-> 1, c |-> 0], [bk |-> 2, t |-> 2, r |-> 0, c |-> 0],
                   [bk |-> 3, t |-> 3, r |-> 0, c |-> 0], [bk |-> 4, t |-> 2, r |-> 0, c |-> 0]},
     !.baskets  = {[id |-> 1, denom |-> BasketDenomOf("C", "NCT"), name |-> "NCT", dar |-> FALSE,
                    ct |-> "C", crit |-> NoCrit, curator |-> "a1"]},
     !.bclasses = {[bid |-> 1, cid |-> "C10"]},
     !.seq      = [@ EXCEPT !.class = 3, !.project = 4, !.batch = 4, !.basket = 1]]

GenesisState ==
  CASE Genesis = "default" -> DefaultGenesis
    [] Genesis = "wide"    -> WideGenesis
    [] Genesis = "class"   -> ClassGenesis
    [] Genesis = "batch"   -> BatchGenesis
    [] Genesis = "market"  -> MarketGenesis
    [] Genesis = "basket"  -> BasketGenesis
    [] Genesis = "basket2" -> Basket2Genesis
    [] Genesis = "basket3" -> Basket3Genesis
    [] Genesis = "credits2" -> Credits2Genesis
    [] Genesis = "bridge"  -> BridgeGenesis
    [] Genesis = "bridge2" -> Bridge2Genesis
    [] Genesis = "fee"     -> FeeGenesis
    [] Genesis = "zerofee" -> ZeroFeeGenesis
    [] Genesis = "expiry"  -> ExpiryGenesis
    [] Genesis = "sellerfee" -> OrderGenesis(RateEmpty, Rate(1, 2))
    [] Genesis = "buyerfee"  -> OrderGenesis(Rate(1, 4), RateZero)

\* ------------------------------------------------------------------ message domains
BatchDenoms(s) == {b.denom : b \in s.batches} \cup {"C09-001-19700315-19700527-001"}
ClassIds(s)    == {c.id : c \in s.classes} \cup {"C09"}
ProjectIds(s)  == {p.id : p \in s.projects} \cup {"C09-001"}

BasketDenoms(s) == {k.denom : k \in s.baskets} \cup {"eco.uC.XXX"}
OrderIds(s)     == 1..MaxOrders
OptExp(s)       == {NoTime} \cup {SomeTime(t) : t \in ExpTicks}

Refs == IF MaxList = 1 /\ Cardinality(Users) < 3 THEN {"r1"} ELSE {"r1", "r2"}
\* batch end date = start date + delta; 0 (start = end) is accepted by MsgCreateBatch
EndDeltas == IF MaxList = 1 THEN {0, 1} ELSE {1}
OfferedFees == {NoCoin} \cup {SomeCoin(d, n) : d \in FeeDenomsOffered, n \in CoinAmts}

Rcpts == Users \cup Spellings
\* (a .cfg file cannot hold negative numbers) the wide-ids configuration also creates batches
\* with first-millennium dates: four-digit zero-padded years in the denom
StartTicksX == StartTicks \cup (IF Genesis = "wide" THEN {-9840, -4850} ELSE {})
Issuance == {[to |-> u, t |-> t, r |-> r] : u \in Rcpts, t \in Amts, r \in Amts}
NoOriginSet == {NoOrigin}

Msgs(s, T) ==
  CASE T = "CreateClass" ->
         IF Cardinality(s.classes) >= MaxClasses THEN {} ELSE
         {[type |-> T, admin |-> a, issuers |-> is, meta |-> "m0", ct |-> ct, fee |-> f]
            : a \in Users, is \in Seqs12(Users), ct \in {t.abbr : t \in s.ctypes} \cup {"ZZ"},
              f \in OfferedFees}
    [] T = "CreateProject" ->
         IF Cardinality(s.projects) >= MaxProjects THEN {} ELSE
         {[type |-> T, admin |-> a, class_id |-> c, meta |-> "m0", jur |-> "US", ref |-> r]
            : a \in Users, c \in ClassIds(s), r \in {"", "r1"}}
    [] T = "CreateBatch" ->
         IF Cardinality(s.batches) >= MaxBatches THEN {} ELSE
         {[type |-> T, issuer |-> a, project_id |-> p, issuance |-> is, meta |-> "m0",
           start |-> st0, end |-> st0 + dl, open |-> o, origin |-> NoOrigin]
            : a \in Users, p \in ProjectIds(s), is \in Seqs12(Issuance),
              st0 \in StartTicksX, dl \in EndDeltas, o \in BOOLEAN}
    [] T = "MintBatchCredits" ->
         {[type |-> T, issuer |-> a, batch_denom |-> d, issuance |-> is,
           origin |-> [set |-> TRUE, id |-> x, src |-> src, contract |-> ""]]
            : a \in Users, d \in BatchDenoms(s), is \in Seqs1(Issuance), x \in OriginIds,
              src \in IF Chains = {} THEN {"polygon"} ELSE Chains}
    [] T = "SealBatch" ->
         {[type |-> T, issuer |-> a, batch_denom |-> d] : a \in Users, d \in BatchDenoms(s)}
    [] T = "UpdateBatchMetadata" ->
         {[type |-> T, issuer |-> a, batch_denom |-> d, meta |-> "m1"]
            : a \in Users, d \in BatchDenoms(s)}
    [] T = "Send" ->
         {[type |-> T, sender |-> a, recipient |-> b, credits |-> cs]
            : a \in Users, b \in Rcpts,
              cs \in Seqs12({[denom |-> d, t |-> t, r |-> r]
                              : d \in BatchDenoms(s), t \in Amts, r \in Amts})}
    [] T = "Retire" ->
         {[type |-> T, owner |-> a, credits |-> cs]
            : a \in Users,
              cs \in Seqs12({[denom |-> d, amt |-> n] : d \in BatchDenoms(s), n \in Amts})}
    [] T = "Cancel" ->
         {[type |-> T, owner |-> a, credits |-> cs]
            : a \in Users,
              cs \in Seqs12({[denom |-> d, amt |-> n] : d \in BatchDenoms(s), n \in Amts})}
    [] T = "UpdateClassAdmin" ->
         {[type |-> T, admin |-> a, class_id |-> c, new_admin |-> b]
            : a \in Users, c \in ClassIds(s), b \in Rcpts}
    [] T = "UpdateClassIssuers" ->
         {[type |-> T, admin |-> a, class_id |-> c, add |-> ad, remove |-> rm]
            : a \in Users, c \in ClassIds(s),
              ad \in {<<>>} \cup Seqs1(Users), rm \in {<<>>} \cup Seqs1(Users)}
    [] T = "UpdateClassMetadata" ->
         {[type |-> T, admin |-> a, class_id |-> c, meta |-> "m1"] : a \in Users, c \in ClassIds(s)}
    [] T = "UpdateProjectAdmin" ->
         {[type |-> T, admin |-> a, project_id |-> p, new_admin |-> b]
            : a \in Users, p \in ProjectIds(s), b \in Rcpts}
    [] T = "UpdateProjectMetadata" ->
         {[type |-> T, admin |-> a, project_id |-> p, meta |-> "m1"] : a \in Users, p \in ProjectIds(s)}
    [] T = "AddCreditType" ->
         {[type |-> T, authority |-> a, abbr |-> ab, name |-> nm, unit |-> "ton"]
            : a \in Signers, ab \in {"C", "BIO"}, nm \in {"carbon", "biodiversity"}}
    [] T = "AddClassCreator" ->
         {[type |-> T, authority |-> a, creator |-> u] : a \in Signers, u \in Users}
    [] T = "RemoveClassCreator" ->
         {[type |-> T, authority |-> a, creator |-> u] : a \in Signers, u \in Users}
    [] T = "SetClassCreatorAllowlist" ->
         {[type |-> T, authority |-> a, enabled |-> e] : a \in Signers, e \in BOOLEAN}
    [] T = "UpdateClassFee" ->
         {[type |-> T, authority |-> a, fee |-> f]
            : a \in Signers, f \in {NoCoin} \cup {SomeCoin(d, n) : d \in Denoms, n \in {0} \cup CoinAmts}}
    [] T = "UpdateBasketFee" ->
         {[type |-> T, authority |-> a, fee |-> f]
            : a \in Signers, f \in {NoCoin} \cup {SomeCoin(d, n) : d \in Denoms, n \in {0} \cup CoinAmts}}
    [] T = "AddAllowedBridgeChain" ->
         {[type |-> T, authority |-> a, chain |-> c] : a \in Signers, c \in Chains}
    [] T = "RemoveAllowedBridgeChain" ->
         {[type |-> T, authority |-> a, chain |-> c] : a \in Signers, c \in Chains}
    [] T = "BurnRegen" ->
         {[type |-> T, burner |-> a, amt |-> n] : a \in Users, n \in {0} \cup CoinAmts}
    [] T = "Unimplemented" ->
         {[type |-> T, signer |-> a, which |-> w]
            : a \in Signers, w \in {"CreateUnregisteredProject", "CreateOrUpdateApplication",
                                     "UpdateProjectEnrollment", "UpdateProjectFee"}}
    [] T = "Bridge" ->
         {[type |-> T, owner |-> a, target |-> c, credits |-> cs]
            : a \in Users, c \in Chains,
              cs \in Seqs12({[denom |-> d, amt |-> n] : d \in BatchDenoms(s), n \in Amts})}
    [] T = "BridgeReceive" ->
         IF Cardinality(s.batches) >= MaxBatches + 1 THEN {} ELSE
         {[type |-> T, issuer |-> a, class_id |-> c, ref |-> rf, pjur |-> "US", pmeta |-> "m0",
           to |-> u, amt |-> n, start |-> 7, end |-> 8, bmeta |-> "m0",
           origin |-> [set |-> TRUE, id |-> x, src |-> src, contract |-> k]]
            : a \in Users, c \in ClassIds(s), rf \in Refs, u \in Users, n \in Amts \ {0},
              x \in OriginIds, src \in Chains, k \in {"k1", "k2"}}
    [] T = "CreateBatchO" ->   \* CreateBatch with an origin tx (bridge family)
         IF Cardinality(s.batches) >= MaxBatches THEN {} ELSE
         {[type |-> "CreateBatch", issuer |-> a, project_id |-> p,
           issuance |-> <<[to |-> a, t |-> 1, r |-> 0]>>, meta |-> "m0",
           start |-> 7, end |-> 8, open |-> o,
           origin |-> [set |-> TRUE, id |-> x, src |-> src, contract |-> k]]
            : a \in Users, p \in ProjectIds(s), o \in BOOLEAN,
              x \in OriginIds, src \in Chains, k \in {"", "k1", "k2"}}
    [] T = "Sell" ->
         IF Cardinality(s.orders) >= MaxOrders \/ s.seq.order >= MaxOrders THEN {} ELSE
         {[type |-> T, seller |-> a, orders |-> os]
            : a \in Users,
              os \in Seqs12({[denom |-> d, qty |-> q, ask_denom |-> ad, ask_amt |-> p,
                               dar |-> dr, exp |-> x]
                              : d \in BatchDenoms(s), q \in Amts, ad \in Denoms \cup {"ufoo"},
                                p \in Asks, dr \in BOOLEAN, x \in OptExp(s)})
                    \* a zero price, in single-entry lists only (pairs would square the domain)
                    \cup Seqs1({[denom |-> d, qty |-> q, ask_denom |-> ad, ask_amt |-> 0,
                                  dar |-> TRUE, exp |-> NoTime]
                                 : d \in BatchDenoms(s), q \in Amts, ad \in Denoms})}
    [] T = "UpdateSellOrders" ->
         {[type |-> T, seller |-> a, updates |-> us]
            : a \in Users,
              us \in Seqs12({[id |-> i, qty |-> q, ask_denom |-> ad, ask_amt |-> p,
                              dar |-> dr, exp |-> x]
                              : i \in OrderIds(s), q \in Amts \ {0}, ad \in Denoms \cup {"ufoo"},
                                p \in Asks, dr \in BOOLEAN, x \in OptExp(s)})
                    \* a zero quantity or a zero price, in single-entry lists only
                    \cup Seqs1({e \in {[id |-> i, qty |-> q, ask_denom |-> ad, ask_amt |-> p,
                                          dar |-> TRUE, exp |-> NoTime]
                                         : i \in OrderIds(s), ad \in Denoms,
                                           q \in Amts \cup {0}, p \in Asks \cup {0}}
                                  : e.qty = 0 \/ e.ask_amt = 0})}
    [] T = "CancelSellOrder" ->
         {[type |-> T, seller |-> a, id |-> i] : a \in Users, i \in OrderIds(s)}
    [] T = "BuyDirect" ->
         {[type |-> T, buyer |-> a, orders |-> os]
            : a \in Users,
              os \in Seqs12({[id |-> i, qty |-> q, bid_denom |-> bd, bid_amt |-> p,
                               dar |-> dr,
                               maxfee |-> IF f < 0 THEN NoCoin ELSE SomeCoin(bd, f)]
                              : i \in OrderIds(s), q \in Amts \ {0}, bd \in Denoms, p \in Bids,
                                dr \in BOOLEAN, f \in MaxFees \cup {-1}})
                    \* a zero quantity or a zero bid, in single-entry lists only
                    \cup Seqs1({[id |-> i, qty |-> q, bid_denom |-> bd, bid_amt |-> p, dar |-> TRUE, maxfee |-> NoCoin]
                                 : i \in OrderIds(s), bd \in Denoms, q \in {0, 1}, p \in Bids \cup {0}})
                    \* a max fee stated in another denomination than the bid (Coin.IsLT panics: the purchase fails)
                    \cup Seqs1({e \in {[id |-> i, qty |-> 1, bid_denom |-> bd, bid_amt |-> p, dar |-> TRUE, maxfee |-> SomeCoin(od, f)]
                                         : i \in OrderIds(s), bd \in Denoms, p \in Bids, f \in MaxFees,
                                           od \in Denoms \cup {"ufoo"}}
                                  : e.maxfee.denom # e.bid_denom})}
    [] T = "AddAllowedDenom" ->
         {[type |-> T, authority |-> a, bank |-> d, display |-> d, exp |-> 6]
            : a \in Signers, d \in Denoms \cup {"ufoo"}}
    [] T = "RemoveAllowedDenom" ->
         {[type |-> T, authority |-> a, denom |-> d] : a \in Signers, d \in Denoms \cup {"ufoo"}}
    [] T = "GovSetFeeParams" ->
         {[type |-> T, authority |-> a, buyer |-> b, seller |-> sl]
            : a \in Signers, b \in Rates, sl \in Rates}
    [] T = "GovSendFromFeePool" ->
         {[type |-> T, authority |-> a, recipient |-> u, denom |-> d, n |-> n]
            : a \in Signers, u \in Users, d \in Denoms, n \in CoinAmts}
    [] T = "BankSend" ->
         {[type |-> T, from |-> a, to |-> b, denom |-> d, n |-> n]
            : a \in Users, b \in Users, n \in (CoinAmts \cup Amts) \ {0},
              d \in Denoms \cup {k.denom : k \in s.baskets}}
    [] T = "BasketCreate" ->
         IF Cardinality(s.baskets) >= MaxBaskets THEN {} ELSE
         \* (every credit type of the state: a three-letter abbreviation gives the four-letter middle part eco.uBIO.x)
         {[type |-> T, curator |-> a, name |-> nm, ct |-> ct, classes |-> cs, dar |-> dr,
           crit |-> cr, fee |-> f]
            \* (a third name only where three baskets may exist: more baskets than batches, seeded change C09-i)
            : a \in Users, nm \in (IF MaxBaskets >= 3 THEN {"NCT", "BCT", "XCT"} ELSE {"NCT", "BCT"}), cs \in Seqs1(ClassIds(s)), dr \in BOOLEAN,
              cr \in Crits, f \in OfferedFees, ct \in {c.abbr : c \in s.ctypes}}
    [] T = "Put" ->
         {[type |-> T, owner |-> a, basket_denom |-> k, credits |-> cs]
            : a \in Users, k \in BasketDenoms(s),
              cs \in Seqs12({[denom |-> d, amt |-> n] : d \in BatchDenoms(s), n \in Amts})}
    [] T = "Take" ->
         {[type |-> T, owner |-> a, basket_denom |-> k, amt |-> n, retire |-> rt]
            : a \in Users, k \in BasketDenoms(s), n \in Amts \cup {3}, rt \in BOOLEAN}
    [] T = "UpdateCurator" ->
         {[type |-> T, curator |-> a, new_curator |-> b, denom |-> k]
            : a \in Users, b \in Rcpts, k \in BasketDenoms(s)}
    [] T = "UpdateDateCriteria" ->
         {[type |-> T, authority |-> a, denom |-> k, crit |-> cr]
            : a \in Signers, k \in BasketDenoms(s), cr \in Crits}
    [] T = "BeginBlock" ->
         {[type |-> T, t |-> t] : t \in {x \in Ticks : x >= s.now}}
    [] OTHER -> {}

\* ------------------------------------------------------------------ behaviour
VARIABLE depth

Init == InitWith(GenesisState) /\ depth = 0

IssuedBounded(s) == \A r \in s.supply : TotalOf(r) <= MaxIssued

Next ==
  /\ Depth = 0 \/ depth < Depth
  /\ depth' = IF Depth = 0 THEN 0 ELSE depth + 1
  /\ \E T \in MsgTypes : \E m \in Msgs(st, T) : Step(m)
  /\ IssuedBounded(st')

Spec == Init /\ [][Next]_<<vars, depth>>

\* Behaviour generation (tlc -simulate): one message type per step, chosen at
\* random, and a bias towards messages the specification accepts -- otherwise
\* failing messages, which are the majority of every domain, crowd out the rest.
\* exhaustive runs look at the chain state and the ghost only
View == <<st, gh, depth>>

\* message types that move credits or coins are drawn four times as often as
\* administrative ones
Weight(T) == IF T \in {"Sell", "BuyDirect", "UpdateSellOrders", "Put", "Take", "Send",
                       "CreateBatch", "BridgeReceive", "Bridge", "BasketCreate"} THEN 4
             ELSE IF T \in {"CancelSellOrder", "Retire", "Cancel", "MintBatchCredits",
                            "BeginBlock", "BankSend", "CreateClass", "CreateProject"} THEN 2
             ELSE 1

\* the list-valued argument of a message type ("" = none)
ListField(T) ==
  CASE T \in {"Send", "Retire", "Cancel", "Put", "Bridge"} -> "credits"
    [] T \in {"Sell", "BuyDirect"} -> "orders"
    [] T = "UpdateSellOrders" -> "updates"
    [] T \in {"CreateBatch", "MintBatchCredits"} -> "issuance"
    [] OTHER -> ""

\* Generation configurations use MaxList = 1, so Msgs(st, T) is the FULL domain
\* of single-entry messages; longer lists are built here by concatenating the
\* lists of two or three drawn messages (duplicates and repeated targets included).
\* x is ONE field away from g: exactly one top-level field differs, and if that field is the
\* list argument, both lists have one entry and the entries differ in exactly one field
OneAway(g, x, lf) ==
  LET D == {f \in DOMAIN g : g[f] # x[f]} IN
  /\ Cardinality(D) = 1
  /\ \A f \in D : f = lf =>
        /\ Len(g[f]) = 1 /\ Len(x[f]) = 1
        /\ Cardinality({h \in DOMAIN g[f][1] : g[f][1][h] # x[f][1][h]}) = 1

GenNext ==
  /\ depth' = depth + 1
  /\ LET avail == {X \in MsgTypes : Msgs(st, X) # {}}
         bag   == UNION {{<<X, i>> : i \in 1..Weight(X)} : X \in avail}
     IN \E c \in RandomSubset(1, bag) :
       LET T    == c[1]
           ms   == Msgs(st, T)
           good == {m \in ms : \E r \in ApplySet(st, m) : r.ok /\ IssuedBounded(r.s)}
           pick == IF good # {} /\ RandomElement(1..8) > 1 THEN good ELSE ms
           lf   == ListField(T)
           more == IF lf = "" THEN 0 ELSE <<0, 0, 0, 1, 1, 2>>[RandomElement(1..6)]
           mode == RandomElement(1..6)
       IN
       IF mode = 1 /\ good # {}
       THEN \* NEAR MISS: a message the specification rejects that is one field away from one it
            \* accepts (the boundary of a guard), alone or next to accepted entries of the same signer
            \E g \in RandomSubset(1, good) :
              LET near == {x \in ms \ good : OneAway(g, x, lf)}
                  mates == {y \in good : SignerOf(y) = SignerOf(g)}
                  how  == RandomElement(1..3)
              IN IF near = {} THEN Step(g)
                 ELSE \E x \in RandomSubset(1, near) : \E y \in RandomSubset(1, mates) :
                        Step(IF lf = "" \/ how = 1 \/ SignerOf(x) # SignerOf(y) THEN x
                             ELSE IF how = 2 THEN [y EXCEPT ![lf] = @ \o x[lf]]
                             ELSE [x EXCEPT ![lf] = @ \o y[lf]])
       ELSE
       \E m \in RandomSubset(1, pick) :
          \* entries to append: mostly drawn from messages of the SAME signer that the specification
          \* accepts and that name something else than m does (so that long lists usually succeed
          \* and touch several rows); sometimes from anywhere
          LET same == {x \in good : SignerOf(x) = SignerOf(m) /\ (lf = "" \/ x[lf] # m[lf])}
              src2 == IF same # {} /\ RandomElement(1..4) > 1 THEN same
                      ELSE IF good # {} /\ RandomElement(1..3) > 1 THEN good ELSE ms
          IN
          \E m2 \in RandomSubset(1, src2) :
          \E m3 \in RandomSubset(1, IF same # {} /\ RandomElement(1..2) = 1 THEN same ELSE ms) :
            Step(IF more = 0 THEN m
                 ELSE IF more = 1 THEN [m EXCEPT ![lf] = @ \o m2[lf]]
                 ELSE [m EXCEPT ![lf] = @ \o m2[lf] \o m3[lf]])

=============================================================================
