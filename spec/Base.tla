-------------------------------- MODULE Base --------------------------------
(***************************************************************************)
(* x/ecocredit base service: credit types, classes, issuers, projects,     *)
(* batches, balances, supplies, origin-tx index, batch contracts, allowed  *)
(* bridge chains, class creator allowlist, class fee.                      *)
(*                                                                         *)
(* One operator H_<Msg>(s, m) per keeper method, guards written as the     *)
(* keeper applies them (their order is irrelevant for the result because   *)
(* any failure discards the whole message).  Quirks of the code are        *)
(* modelled as they are (see DESIGN.md Appendix A):                        *)
(*  - ORM Delete of an absent row succeeds, Insert of a present row fails;  *)
(*  - CreateBatch/MintBatchCredits save a balance row even for a 0/0 entry; *)
(*  - Send skips zero parts, so a 0/0 entry touches nothing;               *)
(*  - MintBatchCredits checks "open" and "signer = batch issuer" only;     *)
(*  - the Batch row's class_key column is never written (stays 0);         *)
(*  - SealBatch of a sealed batch is a successful no-op.                   *)
(***************************************************************************)
EXTENDS Bank

\* ------------------------------------------------------------------ lookups
HasRow(T, P(_)) == \E r \in T : P(r)
TheRow(T, P(_)) == CHOOSE r \in T : P(r)

HasClassId(s, id)   == \E c \in s.classes : c.id = id
ClassById(s, id)    == CHOOSE c \in s.classes : c.id = id
ClassByKey(s, k)    == CHOOSE c \in s.classes : c.key = k
HasClassKey(s, k)   == \E c \in s.classes : c.key = k
HasProjectId(s, id) == \E p \in s.projects : p.id = id
ProjectById(s, id)  == CHOOSE p \in s.projects : p.id = id
ProjectByKey(s, k)  == CHOOSE p \in s.projects : p.key = k
HasProjectKey(s, k) == \E p \in s.projects : p.key = k
HasBatchDenom(s, d) == \E b \in s.batches : b.denom = d
BatchByDenom(s, d)  == CHOOSE b \in s.batches : b.denom = d
BatchByKey(s, k)    == CHOOSE b \in s.batches : b.key = k
HasBatchKey(s, k)   == \E b \in s.batches : b.key = k
HasCreditType(s, a) == \E t \in s.ctypes : t.abbr = a
IsIssuer(s, ck, a)  == \E i \in s.issuers : i.ck = ck /\ i.a = a

\* The keepers find a batch's credit type by parsing the class id out of the
\* batch denom and looking that class up by id.  The class id is the denom's
\* prefix, i.e. the id of the class of the batch's project in every state the
\* creation handlers can build; the specification resolves it through the keys.
BatchClass(s, b) == ClassByKey(s, ProjectByKey(s, b.pk).ck)
BatchResolvable(s, b) ==
  /\ HasProjectKey(s, b.pk)
  /\ HasClassKey(s, ProjectByKey(s, b.pk).ck)
  /\ HasCreditType(s, BatchClass(s, b).ct)

\* ------------------------------------------------------------------ balances
HasBal(s, a, bk) == \E r \in s.bal : r.a = a /\ r.bk = bk
BalOf(s, a, bk) ==
  IF HasBal(s, a, bk) THEN CHOOSE r \in s.bal : r.a = a /\ r.bk = bk
  ELSE [a |-> a, bk |-> bk, t |-> 0, r |-> 0, e |-> 0]
SetBal(s, row) ==
  [s EXCEPT !.bal = {r \in @ : ~(r.a = row.a /\ r.bk = row.bk)} \cup {row}]

HasSupply(s, bk) == \E r \in s.supply : r.bk = bk
SupplyOf(s, bk) == CHOOSE r \in s.supply : r.bk = bk
SetSupply(s, row) == [s EXCEPT !.supply = {r \in @ : r.bk # row.bk} \cup {row}]

\* sequence tables: an absent row means "next = 1"
NextOf(T, keyField, k) ==
  IF \E r \in T : r[keyField] = k THEN (CHOOSE r \in T : r[keyField] = k).next ELSE 1

\* ------------------------------------------------------------------ CreateClass
NoDup(seq) == \A i, j \in DOMAIN seq : i # j => seq[i] # seq[j]

\* the class / basket creation fee protocol (shared with Basket.tla):
\* nothing to do when no fee row is set; otherwise the request must offer the
\* same denom and at least the required amount, the creator must hold the
\* required amount, and exactly the required amount is moved to `mod` and burnt
\* A stored fee of zero (genesis validation accepts it) charges nothing; before
\* the repair recorded in known_findings.txt the zero coin went to x/bank, which
\* rejected it, so no class or basket could be created under such a genesis.
ChargeFee(s, required, offered, payer, mod) ==
  IF ~required.set \/ required.amt <= 0 THEN Ok(s)
  ELSE IF ~offered.set \/ offered.denom # required.denom
          \/ offered.amt < required.amt
          \/ CoinBal(s, payer, required.denom) < required.amt THEN Fail(s)
  ELSE SendAndBurnStrict(s, payer, mod, required.denom, required.amt)

H_CreateClass(s, m) ==
  LET seq  == NextOf(s.cseq, "ct", m.ct)
      id   == ClassIdOf(m.ct, seq)
      key  == s.seq.class + 1
      paid == ChargeFee(s, s.classfee, m.fee, m.admin, ModEco)
  IN
  IF \/ Len(m.issuers) = 0 \/ ~NoDup(m.issuers)
     \/ (m.fee.set /\ m.fee.amt <= 0)
     \/ (s.allowlist /\ m.admin \notin s.creators)
     \/ ~paid.ok
     \/ ~HasCreditType(s, m.ct)
     \/ HasClassId(s, id)                    \* unique index on id
  THEN Fail(s)
  ELSE OkR([paid.s EXCEPT
        !.cseq    = {r \in @ : r.ct # m.ct} \cup {[ct |-> m.ct, next |-> seq + 1]},
        !.classes = @ \cup {[key |-> key, id |-> id, admin |-> m.admin,
                             meta |-> m.meta, ct |-> m.ct]},
        !.issuers = @ \cup {[ck |-> key, a |-> m.issuers[i]] : i \in DOMAIN m.issuers},
        !.seq     = [@ EXCEPT !.class = key]],
      [class_id |-> id])

\* ------------------------------------------------------------------ CreateProject
RefIdTaken(s, ck, ref) ==
  ref # "" /\ \E p \in s.projects : p.ck = ck /\ p.ref = ref

H_CreateProject(s, m) ==
  IF ~HasClassId(s, m.class_id) THEN Fail(s) ELSE
  LET c   == ClassById(s, m.class_id)
      seq == NextOf(s.pseq, "ck", c.key)
      id  == ProjectIdOf(c.id, seq)
      key == s.seq.project + 1
  IN
  IF \/ ~IsIssuer(s, c.key, m.admin)
     \/ RefIdTaken(s, c.key, m.ref)
     \/ HasProjectId(s, id)
  THEN Fail(s)
  ELSE OkR([s EXCEPT
        !.pseq     = {r \in @ : r.ck # c.key} \cup {[ck |-> c.key, next |-> seq + 1]},
        !.projects = @ \cup {[key |-> key, id |-> id, admin |-> m.admin, ck |-> c.key,
                              jur |-> m.jur, meta |-> m.meta, ref |-> m.ref]},
        !.seq      = [@ EXCEPT !.project = key]],
      [project_id |-> id])

\* ------------------------------------------------------------------ issuance
\* origin tx as carried by messages: [set, id, src, contract]  (contract "" = none)
NoOrigin == [set |-> FALSE, id |-> "", src |-> "", contract |-> ""]

OriginSeen(s, ck, o) == \E x \in s.origintx : x.ck = ck /\ x.id = o.id /\ x.src = o.src

RECURSIVE IssueFold(_, _, _, _)
\* both issuing handlers save the recipient's balance row for every entry,
\* including 0/0 entries (the row then exists with zero amounts)
IssueFold(s, bk, iss, i) ==
  IF i > Len(iss) THEN s
  ELSE LET e == iss[i]
           b == BalOf(s, e.to, bk)
       IN IssueFold(SetBal(s, [b EXCEPT !.t = @ + e.t, !.r = @ + e.r]), bk, iss, i + 1)

SumIss(iss, f) == SumOver(DOMAIN iss, LAMBDA i : iss[i][f])

H_CreateBatch(s, m) ==
  IF ~HasProjectId(s, m.project_id) THEN Fail(s) ELSE
  LET p == ProjectById(s, m.project_id) IN
  IF ~HasClassKey(s, p.ck) THEN Fail(s) ELSE
  LET c     == ClassByKey(s, p.ck)
      seq   == NextOf(s.bseq, "pk", p.key)
      denom == BatchDenomOf(p.id, m.start, m.end, seq)
      key   == s.seq.batch + 1
      o     == m.origin
  IN
  IF \/ Len(m.issuance) = 0
     \/ m.start > m.end
     \/ ~IsIssuer(s, c.key, m.issuer)
     \/ HasBatchDenom(s, denom)
     \/ ~HasCreditType(s, c.ct)
     \/ HasSupply(s, key)
     \/ (o.set /\ OriginSeen(s, p.ck, o))
     \/ (o.set /\ o.contract # "" /\
          \E x \in s.contracts : x.ck = p.ck /\ x.contract = o.contract)
  THEN Fail(s)
  ELSE
  LET s1 == [s EXCEPT
        !.bseq    = {r \in @ : r.pk # p.key} \cup {[pk |-> p.key, next |-> seq + 1]},
        !.batches = @ \cup {[key |-> key, issuer |-> m.issuer, pk |-> p.key,
                             denom |-> denom, meta |-> m.meta, start |-> m.start,
                             end |-> m.end, issued |-> s.now, open |-> m.open,
                             ck |-> 0]},
        !.seq     = [@ EXCEPT !.batch = key]]
      s2 == IssueFold(s1, key, m.issuance, 1)
      s3 == [s2 EXCEPT
        !.supply    = @ \cup {[bk |-> key, t |-> SumIss(m.issuance, "t"),
                               r |-> SumIss(m.issuance, "r"), c |-> 0]},
        !.origintx  = IF o.set THEN @ \cup {[ck |-> p.ck, id |-> o.id, src |-> o.src]}
                      ELSE @,
        !.contracts = IF o.set /\ o.contract # ""
                      THEN @ \cup {[bk |-> key, ck |-> p.ck, contract |-> o.contract]}
                      ELSE @]
  IN OkR(s3, [batch_denom |-> denom])

H_MintBatchCredits(s, m) ==
  IF ~HasBatchDenom(s, m.batch_denom) THEN Fail(s) ELSE
  LET b == BatchByDenom(s, m.batch_denom) IN
  IF \/ Len(m.issuance) = 0
     \/ ~m.origin.set
     \/ ~b.open
     \/ b.issuer # m.issuer
     \/ ~BatchResolvable(s, b)
     \/ OriginSeen(s, ProjectByKey(s, b.pk).ck, m.origin)
     \/ ~HasSupply(s, b.key)
  THEN Fail(s)
  ELSE
  LET ck  == ProjectByKey(s, b.pk).ck
      s1  == IssueFold(s, b.key, m.issuance, 1)
      sup == SupplyOf(s, b.key)
  IN Ok([s1 EXCEPT
        !.supply   = {r \in @ : r.bk # b.key} \cup
                     {[sup EXCEPT !.t = @ + SumIss(m.issuance, "t"),
                                  !.r = @ + SumIss(m.issuance, "r")]},
        !.origintx = @ \cup {[ck |-> ck, id |-> m.origin.id, src |-> m.origin.src]}])

H_SealBatch(s, m) ==
  IF ~HasBatchDenom(s, m.batch_denom) THEN Fail(s) ELSE
  LET b == BatchByDenom(s, m.batch_denom) IN
  IF b.issuer # m.issuer THEN Fail(s)
  ELSE Ok([s EXCEPT !.batches = (@ \ {b}) \cup {[b EXCEPT !.open = FALSE]}])

H_UpdateBatchMetadata(s, m) ==
  IF ~HasBatchDenom(s, m.batch_denom) THEN Fail(s) ELSE
  LET b == BatchByDenom(s, m.batch_denom) IN
  IF ~b.open \/ b.issuer # m.issuer THEN Fail(s)
  ELSE Ok([s EXCEPT !.batches = (@ \ {b}) \cup {[b EXCEPT !.meta = m.meta]}])

\* ------------------------------------------------------------------ Send
\* one entry [denom, t, r]: tradable part then retired part, each skipped at 0
\* as the code does it (msg_send.go): the tradable part is debited from the sender and
\* credited to the recipient, THEN the retired part is debited and credited (and moved in
\* the supply).  The order only matters when sender and recipient are the same account
\* (a send to another spelling of the sender's own address): the tradable part returns
\* before the retired part is taken.
SendOne(s, from, to, e) ==
  IF ~HasBatchDenom(s, e.denom) THEN Fail(s) ELSE
  LET b == BatchByDenom(s, e.denom) IN
  IF ~BatchResolvable(s, b) THEN Fail(s) ELSE
  \* tradable part
  LET r1 == IF e.t = 0 THEN Ok(s)
            ELSE IF ~HasBal(s, from, b.key) \/ BalOf(s, from, b.key).t < e.t THEN Fail(s)
            ELSE LET fb == BalOf(s, from, b.key)
                     s1 == SetBal(s, [fb EXCEPT !.t = @ - e.t])
                     tb == BalOf(s1, to, b.key)
                 IN Ok(SetBal(s1, [tb EXCEPT !.t = @ + e.t]))
  IN
  IF ~r1.ok THEN Fail(s) ELSE
  \* retired part
  IF e.r = 0 THEN r1
  ELSE LET u == r1.s IN
       IF ~HasBal(u, from, b.key) \/ BalOf(u, from, b.key).t < e.r THEN Fail(s)
       ELSE LET fb == BalOf(u, from, b.key)
                s1 == SetBal(u, [fb EXCEPT !.t = @ - e.r])
                tb == BalOf(s1, to, b.key)
                s2 == SetBal(s1, [tb EXCEPT !.r = @ + e.r])
            IN IF ~HasSupply(s2, b.key) \/ SupplyOf(s2, b.key).t < e.r THEN Fail(s)
               ELSE LET sup == SupplyOf(s2, b.key) IN
                    Ok(SetSupply(s2, [sup EXCEPT !.t = @ - e.r, !.r = @ + e.r]))

RECURSIVE SendFold(_, _, _, _, _)
SendFold(s, from, to, cs, i) ==
  IF i > Len(cs) THEN Ok(s)
  ELSE LET r == SendOne(s, from, to, cs[i]) IN
       IF r.ok THEN SendFold(r.s, from, to, cs, i + 1) ELSE r

H_Send(s, m) ==
  \* (sender # recipient is a check on the address STRINGS: RawOK, Ecocredit.tla; a send to
  \* another spelling of the sender's own address is a valid no-op / self-retirement)
  IF Len(m.credits) = 0 THEN Fail(s)
  ELSE Atomic(s, SendFold(s, m.sender, m.recipient, m.credits, 1))

\* ------------------------------------------------------------------ Retire / Cancel
\* kind "retire": tradable -> retired (balance and supply)
\* kind "cancel": tradable leaves the balance, supply moves tradable -> cancelled
BurnOne(s, owner, e, kind) ==
  IF e.amt <= 0 \/ ~HasBatchDenom(s, e.denom) THEN Fail(s) ELSE
  LET b == BatchByDenom(s, e.denom) IN
  IF \/ ~BatchResolvable(s, b)
     \/ ~HasBal(s, owner, b.key)
     \/ ~HasSupply(s, b.key)
     \/ BalOf(s, owner, b.key).t < e.amt
     \/ SupplyOf(s, b.key).t < e.amt
  THEN Fail(s)
  ELSE
  LET ob  == BalOf(s, owner, b.key)
      sup == SupplyOf(s, b.key)
  IN IF kind = "retire"
     THEN Ok(SetSupply(SetBal(s, [ob EXCEPT !.t = @ - e.amt, !.r = @ + e.amt]),
                       [sup EXCEPT !.t = @ - e.amt, !.r = @ + e.amt]))
     ELSE Ok(SetSupply(SetBal(s, [ob EXCEPT !.t = @ - e.amt]),
                       [sup EXCEPT !.t = @ - e.amt, !.c = @ + e.amt]))

RECURSIVE BurnFold(_, _, _, _, _)
BurnFold(s, owner, cs, kind, i) ==
  IF i > Len(cs) THEN Ok(s)
  ELSE LET r == BurnOne(s, owner, cs[i], kind) IN
       IF r.ok THEN BurnFold(r.s, owner, cs, kind, i + 1) ELSE r

H_Retire(s, m) ==
  IF Len(m.credits) = 0 THEN Fail(s)
  ELSE Atomic(s, BurnFold(s, m.owner, m.credits, "retire", 1))

H_Cancel(s, m) ==
  IF Len(m.credits) = 0 THEN Fail(s)
  ELSE Atomic(s, BurnFold(s, m.owner, m.credits, "cancel", 1))

\* ------------------------------------------------------------------ Bridge
HasContract(s, bk) == \E x \in s.contracts : x.bk = bk
ContractOf(s, bk)  == (CHOOSE x \in s.contracts : x.bk = bk).contract

H_Bridge(s, m) ==
  IF Len(m.credits) = 0 \/ Lower(m.target) \notin s.chains THEN Fail(s) ELSE
  LET r == BurnFold(s, m.owner, m.credits, "cancel", 1) IN
  IF ~r.ok THEN Fail(s)
  ELSE IF \E i \in DOMAIN m.credits :
            ~HasContract(s, BatchByDenom(s, m.credits[i].denom).key) THEN Fail(s)
  ELSE OkR(r.s, [contracts |->
         [i \in DOMAIN m.credits |-> ContractOf(s, BatchByDenom(s, m.credits[i].denom).key)]])

\* m: [issuer, class_id, ref, pjur, pmeta, to, amt, start, end, bmeta, origin]
H_BridgeReceive(s, m) ==
  IF \/ m.amt <= 0 \/ m.start > m.end \/ ~m.origin.set \/ m.origin.contract = ""
     \/ Lower(m.origin.src) \notin s.chains
     \/ ~HasClassId(s, m.class_id)
  THEN Fail(s) ELSE
  LET c == ClassById(s, m.class_id)
      bound == \E x \in s.contracts : x.ck = c.key /\ x.contract = m.origin.contract
  IN
  IF bound THEN
    LET x == CHOOSE y \in s.contracts : y.ck = c.key /\ y.contract = m.origin.contract IN
    IF ~HasBatchKey(s, x.bk) THEN Fail(s) ELSE
    LET b == BatchByKey(s, x.bk) IN
    IF ~HasProjectKey(s, b.pk) THEN Fail(s) ELSE
    LET r == H_MintBatchCredits(s, [issuer |-> m.issuer, batch_denom |-> b.denom,
                 issuance |-> <<[to |-> m.to, t |-> m.amt, r |-> 0]>>, origin |-> m.origin])
    IN IF ~r.ok THEN Fail(s)
       ELSE OkR(r.s, [batch_denom |-> b.denom, project_id |-> ProjectByKey(s, b.pk).id])
  ELSE
    LET existing == \E p \in s.projects : p.ck = c.key /\ p.ref = m.ref
        \* the keeper takes the first row of the (class_key, reference_id) index;
        \* reference ids are unique within a class for non-empty values
        rp == IF existing THEN Ok(s)
              ELSE H_CreateProject(s, [admin |-> m.issuer, class_id |-> m.class_id,
                                       meta |-> m.pmeta, jur |-> m.pjur, ref |-> m.ref])
    IN IF ~rp.ok THEN Fail(s) ELSE
    LET pid == IF existing
               THEN (CHOOSE p \in s.projects : p.ck = c.key /\ p.ref = m.ref /\
                        \A q \in s.projects : (q.ck = c.key /\ q.ref = m.ref) => p.key <= q.key).id
               ELSE rp.resp.project_id
        rb == H_CreateBatch(rp.s, [issuer |-> m.issuer, project_id |-> pid,
                 issuance |-> <<[to |-> m.to, t |-> m.amt, r |-> 0]>>, meta |-> m.bmeta,
                 start |-> m.start, end |-> m.end, open |-> TRUE, origin |-> m.origin])
    IN IF ~rb.ok THEN Fail(s)
       ELSE OkR(rb.s, [batch_denom |-> rb.resp.batch_denom, project_id |-> pid])

\* ------------------------------------------------------------------ admin updates
H_UpdateClassAdmin(s, m) ==
  IF ~HasClassId(s, m.class_id) THEN Fail(s) ELSE
  LET c == ClassById(s, m.class_id) IN
  IF c.admin # m.admin THEN Fail(s)     \* admin # new_admin as strings: RawOK
  ELSE Ok([s EXCEPT !.classes = (@ \ {c}) \cup {[c EXCEPT !.admin = m.new_admin]}])

H_UpdateClassMetadata(s, m) ==
  IF ~HasClassId(s, m.class_id) THEN Fail(s) ELSE
  LET c == ClassById(s, m.class_id) IN
  IF c.admin # m.admin THEN Fail(s)
  ELSE Ok([s EXCEPT !.classes = (@ \ {c}) \cup {[c EXCEPT !.meta = m.meta]}])

\* removals first (ORM Delete of an absent row succeeds), then inserts
\* (Insert of a present row fails the message)
H_UpdateClassIssuers(s, m) ==
  IF ~HasClassId(s, m.class_id) THEN Fail(s) ELSE
  LET c      == ClassById(s, m.class_id)
      rem    == {[ck |-> c.key, a |-> m.remove[i]] : i \in DOMAIN m.remove}
      add    == {[ck |-> c.key, a |-> m.add[i]] : i \in DOMAIN m.add}
      after  == s.issuers \ rem
  IN
  IF \/ c.admin # m.admin
     \/ (Len(m.add) = 0 /\ Len(m.remove) = 0)
     \/ ~NoDup(m.add) \/ ~NoDup(m.remove)
     \/ add \cap after # {}
  THEN Fail(s)
  ELSE Ok([s EXCEPT !.issuers = after \cup add])

H_UpdateProjectAdmin(s, m) ==
  IF ~HasProjectId(s, m.project_id) THEN Fail(s) ELSE
  LET p == ProjectById(s, m.project_id) IN
  IF p.admin # m.admin THEN Fail(s)     \* admin # new_admin as strings: RawOK
  ELSE Ok([s EXCEPT !.projects = (@ \ {p}) \cup {[p EXCEPT !.admin = m.new_admin]}])

H_UpdateProjectMetadata(s, m) ==
  IF ~HasProjectId(s, m.project_id) THEN Fail(s) ELSE
  LET p == ProjectById(s, m.project_id) IN
  IF p.admin # m.admin THEN Fail(s)
  ELSE Ok([s EXCEPT !.projects = (@ \ {p}) \cup {[p EXCEPT !.meta = m.meta]}])

\* ------------------------------------------------------------------ governance
H_AddCreditType(s, m) ==
  IF \/ m.authority # Gov
     \/ \E t \in s.ctypes : t.abbr = m.abbr \/ t.name = m.name
  THEN Fail(s)
  ELSE Ok([s EXCEPT !.ctypes = @ \cup {[abbr |-> m.abbr, name |-> m.name,
                                        unit |-> m.unit, prec |-> 6]}])

H_AddClassCreator(s, m) ==
  IF m.authority # Gov \/ m.creator \in s.creators THEN Fail(s)
  ELSE Ok([s EXCEPT !.creators = @ \cup {m.creator}])

H_RemoveClassCreator(s, m) ==
  IF m.authority # Gov \/ m.creator \notin s.creators THEN Fail(s)
  ELSE Ok([s EXCEPT !.creators = @ \ {m.creator}])

H_SetClassCreatorAllowlist(s, m) ==
  IF m.authority # Gov THEN Fail(s) ELSE Ok([s EXCEPT !.allowlist = m.enabled])

\* an absent or non-positive fee stores "no fee"
H_UpdateClassFee(s, m) ==
  IF m.authority # Gov THEN Fail(s)
  ELSE Ok([s EXCEPT !.classfee = IF m.fee.set /\ m.fee.amt > 0 THEN m.fee ELSE NoCoin])

H_AddAllowedBridgeChain(s, m) ==
  IF m.authority # Gov \/ Lower(m.chain) \in s.chains THEN Fail(s)
  ELSE Ok([s EXCEPT !.chains = @ \cup {Lower(m.chain)}])

H_RemoveAllowedBridgeChain(s, m) ==
  IF m.authority # Gov THEN Fail(s)
  ELSE Ok([s EXCEPT !.chains = @ \ {Lower(m.chain)}])

H_BurnRegen(s, m) ==
  IF m.amt <= 0 THEN Fail(s)
  ELSE Atomic(s, SendAndBurnStrict(s, m.burner, ModEco, "uregen", m.amt))

\* declared in the Msg service but not implemented by the keeper
H_Unimplemented(s, m) == Fail(s)

=============================================================================
