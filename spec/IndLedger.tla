----------------------------- MODULE IndLedger -----------------------------
(***************************************************************************)
(* The credit ledger, the basket and the marketplace escrow with UNBOUNDED *)
(* integer amounts (micro-credits), for Apalache: the conjunction IndInv   *)
(* of C01 (conservation), C02 (accounting), C05 (backing) and C06 (escrow  *)
(* = open orders) is an INDUCTIVE invariant of the design:                 *)
(*     Init => IndInv            (apalache-mc check --length=0)            *)
(*     IndInv /\ Next => IndInv' (apalache-mc check --init=IndInit --length=1) *)
(* for a fixed small set of accounts, batches and order ids but for ALL    *)
(* amounts -- the dimension TLC's bounded configurations cannot cover.     *)
(* The actions are the amount-level effects of the handlers of Base.tla,   *)
(* Basket.tla and Market.tla (guards that do not concern amounts omitted,  *)
(* which only makes the invariant stronger).                               *)
(***************************************************************************)
EXTENDS Integers, Apalache

CONSTANTS
  \* @type: Set(Str);
  A,
  \* @type: Set(Str);
  B,
  \* @type: Set(Int);
  O

VARIABLES
  \* @type: <<Str, Str>> -> Int;
  bt,
  \* @type: <<Str, Str>> -> Int;
  br,
  \* @type: <<Str, Str>> -> Int;
  be,
  \* @type: Str -> Int;
  st,
  \* @type: Str -> Int;
  sr,
  \* @type: Str -> Int;
  sc,
  \* @type: Str -> Int;
  kb,
  \* @type: Str -> Int;
  issued,
  \* @type: Int -> Bool;
  oOn,
  \* @type: Int -> Str;
  oSeller,
  \* @type: Int -> Str;
  oBatch,
  \* @type: Int -> Int;
  oQty,
  \* @type: Str -> Int;
  tok,
  \* @type: Int;
  tsup

ConstInit == A = {"a1", "a2", "a3"} /\ B = {"b1", "b2"} /\ O = {1, 2}

AB == A \X B
\* @type: (<<Str, Str>> -> Int, Str) => Int;
SumA(f, b) == ApaFoldSet(LAMBDA acc, a : acc + f[<<a, b>>], 0, A)
\* @type: (Str, Str) => Int;
OpenQty(a, b) == ApaFoldSet(LAMBDA acc, o : acc + (IF oOn[o] /\ oSeller[o] = a /\ oBatch[o] = b THEN oQty[o] ELSE 0), 0, O)
\* @type: Int;
SumK == ApaFoldSet(LAMBDA acc, b : acc + kb[b], 0, B)
\* @type: Int;
SumTok == ApaFoldSet(LAMBDA acc, a : acc + tok[a], 0, A)

TypeOK ==
  /\ bt \in [AB -> Nat] /\ br \in [AB -> Nat] /\ be \in [AB -> Nat]
  /\ st \in [B -> Nat] /\ sr \in [B -> Nat] /\ sc \in [B -> Nat] /\ kb \in [B -> Nat] /\ issued \in [B -> Nat]
  /\ oOn \in [O -> BOOLEAN] /\ oSeller \in [O -> A] /\ oBatch \in [O -> B] /\ oQty \in [O -> Nat]
  /\ tok \in [A -> Nat] /\ tsup \in Nat

C01_Conservation == \A b \in B : st[b] = SumA(bt, b) + SumA(be, b) + kb[b] /\ sr[b] = SumA(br, b)
C02_Accounting == \A b \in B : st[b] + sr[b] + sc[b] = issued[b]
C05_Backed == tsup = SumK /\ tsup = SumTok           \* tokens counted in micro-credits (1 token = 10^-6 credit)
C06_Escrow == \A a \in A, b \in B : be[<<a, b>>] = OpenQty(a, b)
C06_Positive == \A o \in O : oOn[o] => oQty[o] > 0

IndInv == TypeOK /\ C01_Conservation /\ C02_Accounting /\ C05_Backed /\ C06_Escrow /\ C06_Positive

Init ==
  /\ bt = [p \in AB |-> 0] /\ br = [p \in AB |-> 0] /\ be = [p \in AB |-> 0]
  /\ st = [b \in B |-> 0] /\ sr = [b \in B |-> 0] /\ sc = [b \in B |-> 0] /\ kb = [b \in B |-> 0] /\ issued = [b \in B |-> 0]
  /\ oOn = [o \in O |-> FALSE] /\ oSeller = [o \in O |-> "a1"] /\ oBatch = [o \in O |-> "b1"] /\ oQty = [o \in O |-> 0]
  /\ tok = [a \in A |-> 0] /\ tsup = 0
IndInit == IndInv

Issue(a, b, x, y) ==            \* CreateBatch / MintBatchCredits / BridgeReceive: x tradable, y retired
  /\ x >= 0 /\ y >= 0
  /\ bt' = [bt EXCEPT ![<<a, b>>] = @ + x] /\ br' = [br EXCEPT ![<<a, b>>] = @ + y]
  /\ st' = [st EXCEPT ![b] = @ + x] /\ sr' = [sr EXCEPT ![b] = @ + y] /\ issued' = [issued EXCEPT ![b] = @ + x + y]
  /\ UNCHANGED <<be, sc, kb, oOn, oSeller, oBatch, oQty, tok, tsup>>
Send(a, c, b, x, y) ==          \* x stays tradable, y is retired for the recipient (a = c allowed: two spellings)
  /\ x >= 0 /\ y >= 0 /\ bt[<<a, b>>] >= x + y
  /\ bt' = [[bt EXCEPT ![<<a, b>>] = @ - x - y] EXCEPT ![<<c, b>>] = @ + x]
  /\ br' = [br EXCEPT ![<<c, b>>] = @ + y]
  /\ st' = [st EXCEPT ![b] = @ - y] /\ sr' = [sr EXCEPT ![b] = @ + y]
  /\ UNCHANGED <<be, sc, kb, issued, oOn, oSeller, oBatch, oQty, tok, tsup>>
Retire(a, b, x) ==
  /\ x > 0 /\ bt[<<a, b>>] >= x
  /\ bt' = [bt EXCEPT ![<<a, b>>] = @ - x] /\ br' = [br EXCEPT ![<<a, b>>] = @ + x]
  /\ st' = [st EXCEPT ![b] = @ - x] /\ sr' = [sr EXCEPT ![b] = @ + x]
  /\ UNCHANGED <<be, sc, kb, issued, oOn, oSeller, oBatch, oQty, tok, tsup>>
Cancel(a, b, x) ==              \* also Bridge
  /\ x > 0 /\ bt[<<a, b>>] >= x
  /\ bt' = [bt EXCEPT ![<<a, b>>] = @ - x] /\ st' = [st EXCEPT ![b] = @ - x] /\ sc' = [sc EXCEPT ![b] = @ + x]
  /\ UNCHANGED <<br, be, sr, kb, issued, oOn, oSeller, oBatch, oQty, tok, tsup>>
Put(a, b, x) ==
  /\ x > 0 /\ bt[<<a, b>>] >= x
  /\ bt' = [bt EXCEPT ![<<a, b>>] = @ - x] /\ kb' = [kb EXCEPT ![b] = @ + x]
  /\ tok' = [tok EXCEPT ![a] = @ + x] /\ tsup' = tsup + x
  /\ UNCHANGED <<br, be, st, sr, sc, issued, oOn, oSeller, oBatch, oQty>>
\* Take of x tokens released from ONE batch (a Take over several batches is a sequence of these within one
\* message; the invariant is preserved by each)
TakeOne(a, b, x, retire) ==
  /\ x > 0 /\ tok[a] >= x /\ kb[b] >= x
  /\ tok' = [tok EXCEPT ![a] = @ - x] /\ tsup' = tsup - x /\ kb' = [kb EXCEPT ![b] = @ - x]
  /\ IF retire
     THEN /\ br' = [br EXCEPT ![<<a, b>>] = @ + x] /\ st' = [st EXCEPT ![b] = @ - x] /\ sr' = [sr EXCEPT ![b] = @ + x]
          /\ UNCHANGED bt
     ELSE /\ bt' = [bt EXCEPT ![<<a, b>>] = @ + x] /\ UNCHANGED <<br, st, sr>>
  /\ UNCHANGED <<be, sc, issued, oOn, oSeller, oBatch, oQty>>
TokenSend(a, c, x) ==
  /\ x >= 0 /\ tok[a] >= x
  /\ tok' = [[tok EXCEPT ![a] = @ - x] EXCEPT ![c] = @ + x]
  /\ UNCHANGED <<bt, br, be, st, sr, sc, kb, issued, oOn, oSeller, oBatch, oQty, tsup>>
Sell(o, a, b, x) ==
  /\ ~oOn[o] /\ x > 0 /\ bt[<<a, b>>] >= x
  /\ bt' = [bt EXCEPT ![<<a, b>>] = @ - x] /\ be' = [be EXCEPT ![<<a, b>>] = @ + x]
  /\ oOn' = [oOn EXCEPT ![o] = TRUE] /\ oSeller' = [oSeller EXCEPT ![o] = a] /\ oBatch' = [oBatch EXCEPT ![o] = b] /\ oQty' = [oQty EXCEPT ![o] = x]
  /\ UNCHANGED <<br, st, sr, sc, kb, issued, tok, tsup>>
UpdateQty(o, x) ==              \* UpdateSellOrders: new quantity x (up, down or equal)
  /\ oOn[o] /\ x > 0
  /\ LET a == oSeller[o]  b == oBatch[o]  d == x - oQty[o] IN
     /\ bt[<<a, b>>] >= d
     /\ bt' = [bt EXCEPT ![<<a, b>>] = @ - d] /\ be' = [be EXCEPT ![<<a, b>>] = @ + d]
  /\ oQty' = [oQty EXCEPT ![o] = x] /\ UNCHANGED <<oOn, oSeller, oBatch>>
  /\ UNCHANGED <<br, st, sr, sc, kb, issued, tok, tsup>>
Unlist(o) ==                    \* CancelSellOrder and expiry at block start
  /\ oOn[o]
  /\ LET a == oSeller[o]  b == oBatch[o] IN
     /\ bt' = [bt EXCEPT ![<<a, b>>] = @ + oQty[o]] /\ be' = [be EXCEPT ![<<a, b>>] = @ - oQty[o]]
  /\ oOn' = [oOn EXCEPT ![o] = FALSE] /\ UNCHANGED <<oSeller, oBatch, oQty>>
  /\ UNCHANGED <<br, st, sr, sc, kb, issued, tok, tsup>>
Fill(o, c, x, retire) ==        \* BuyDirect of x credits of order o by c
  /\ oOn[o] /\ x > 0 /\ x <= oQty[o] /\ c # oSeller[o]
  /\ LET a == oSeller[o]  b == oBatch[o] IN
     /\ be' = [be EXCEPT ![<<a, b>>] = @ - x]
     /\ IF retire
        THEN /\ br' = [br EXCEPT ![<<c, b>>] = @ + x] /\ st' = [st EXCEPT ![b] = @ - x] /\ sr' = [sr EXCEPT ![b] = @ + x]
             /\ UNCHANGED bt
        ELSE /\ bt' = [bt EXCEPT ![<<c, b>>] = @ + x] /\ UNCHANGED <<br, st, sr>>
  /\ oOn' = [oOn EXCEPT ![o] = (x # oQty[o])] /\ oQty' = [oQty EXCEPT ![o] = IF x = @ THEN @ ELSE @ - x] /\ UNCHANGED <<oSeller, oBatch>>
  /\ UNCHANGED <<sc, kb, issued, tok, tsup>>

Next ==
  \E x \in Int : \E y \in Int : \E a \in A : \E c \in A : \E b \in B : \E o \in O : \E rt \in BOOLEAN :
    \/ Issue(a, b, x, y) \/ Send(a, c, b, x, y) \/ Retire(a, b, x) \/ Cancel(a, b, x)
    \/ Put(a, b, x) \/ TakeOne(a, b, x, rt) \/ TokenSend(a, c, x)
    \/ Sell(o, a, b, x) \/ UpdateQty(o, x) \/ Unlist(o) \/ Fill(o, c, x, rt)
=============================================================================
