------------------------------- MODULE MC_Iri -------------------------------
(* Exhaustive check of Iri.tla over boundary classes of every field: TLC     *)
(* enumerates all PAIRS of content hashes of the domain as initial states.   *)
EXTENDS Iri

CONSTANTS Algs, Canons, Merkles, HLens, Digests, ByteFields

Dom ==
  {[kind |-> "raw", h |-> d, hlen |-> n, alg |-> g, canon |-> 0, merkle |-> 0, ext |-> x]
     : d \in Digests, n \in HLens, g \in Algs, x \in ExtPool}
  \cup
  {[kind |-> "graph", h |-> d, hlen |-> n, alg |-> g, canon |-> c, merkle |-> k, ext |-> ""]
     : d \in Digests, n \in HLens, g \in Algs, c \in Canons, k \in Merkles}

VARIABLES a, b
Init == a \in Dom /\ b \in Dom
Next == UNCHANGED <<a, b>>
Spec == Init /\ [][Next]_<<a, b>>

RoundTrip == C15_RoundTrip(a, ByteFields)
Injective == C15_Injective(a, b, ByteFields)
Reencodes == C15_Reencodes(a, ByteFields)
=============================================================================
