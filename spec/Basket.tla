------------------------------- MODULE Basket -------------------------------
(***************************************************************************)
(* x/ecocredit basket sub-module.                                          *)
(*   s.baskets  : [id, denom, name, dar, ct, crit, curator]                *)
(*                dar = disable_auto_retire; crit = [kind, v] with kind in *)
(*                "none" | "min" (fixed tick v) | "window" (v ticks) |     *)
(*                "years" (v years in the past)                            *)
(*   s.bclasses : [bid, cid]            allowed classes of a basket        *)
(*   s.bbal     : [bid, denom, amt, start]  credits held, with the batch   *)
(*                start date copied from the batch at the first deposit    *)
(*   s.basketfee: optional coin                                            *)
(* Basket token amounts are in the same (normalised) unit as credits, so   *)
(* Put mints exactly the deposited amount and Take burns exactly what it   *)
(* releases (DESIGN.md section 3).                                         *)
(***************************************************************************)
EXTENDS Base

HasBasket(s, d) == \E k \in s.baskets : k.denom = d
BasketByDenom(s, d) == CHOOSE k \in s.baskets : k.denom = d

NoCrit == [kind |-> "none", v |-> 0]

\* earliest admissible batch start date at block time `now`; "none" admits all
Admits(crit, now, start) ==
  CASE crit.kind = "min"    -> start >= crit.v
    [] crit.kind = "window" -> start >= now - crit.v
    [] crit.kind = "years"  -> start >= YearStart(now, crit.v)
    [] OTHER                -> TRUE

\* ------------------------------------------------------------------ Create
\* m: [curator, name, ct, classes (Seq of class ids), dar, crit, fee (optional coin)]
H_BasketCreate(s, m) ==
  LET denom == BasketDenomOf(m.ct, m.name)
      id    == s.seq.basket + 1
      paid  == ChargeFee(s, s.basketfee, m.fee, m.curator, ModBasket)
  IN
  IF \/ Len(m.classes) = 0
     \/ (m.fee.set /\ m.fee.amt <= 0)
     \/ ~paid.ok
     \/ ~HasCreditType(s, m.ct)
     \/ \E k \in s.baskets : k.denom = denom \/ k.name = m.name
     \/ \E i \in DOMAIN m.classes :
           \/ ~HasClassId(s, m.classes[i])
           \/ ClassById(s, m.classes[i]).ct # m.ct
     \/ ~NoDup(m.classes)                    \* second Insert of (basket, class) fails
  THEN Fail(s)
  ELSE OkR([paid.s EXCEPT
        !.baskets  = @ \cup {[id |-> id, denom |-> denom, name |-> m.name, dar |-> m.dar,
                              ct |-> m.ct, crit |-> m.crit, curator |-> m.curator]},
        !.bclasses = @ \cup {[bid |-> id, cid |-> m.classes[i]] : i \in DOMAIN m.classes},
        !.seq      = [@ EXCEPT !.basket = id]],
      [basket_denom |-> denom])

\* ------------------------------------------------------------------ Put
HasBBal(s, bid, denom) == \E r \in s.bbal : r.bid = bid /\ r.denom = denom
BBalOf(s, bid, denom)  == CHOOSE r \in s.bbal : r.bid = bid /\ r.denom = denom

\* the documented precondition of one deposit (C11 "succeeds only if")
PutAdmissible(s, k, b) ==
  /\ Admits(k.crit, s.now, b.start)
  /\ \E x \in s.bclasses : x.bid = k.id /\ x.cid = BatchClass(s, b).id
  /\ BatchClass(s, b).ct = k.ct

PutOne(s, k, owner, e) ==
  IF e.amt <= 0 \/ ~HasBatchDenom(s, e.denom) THEN Fail(s) ELSE
  LET b == BatchByDenom(s, e.denom) IN
  IF \/ ~BatchResolvable(s, b)
     \/ ~PutAdmissible(s, k, b)
     \/ ~HasBal(s, owner, b.key)
     \/ BalOf(s, owner, b.key).t < e.amt
     \/ (HasBBal(s, k.id, b.denom) /\ BBalOf(s, k.id, b.denom).amt <= 0)
  THEN Fail(s)
  ELSE
  LET ob == BalOf(s, owner, b.key)
      s1 == SetBal(s, [ob EXCEPT !.t = @ - e.amt])
      nb == IF HasBBal(s, k.id, b.denom)
            THEN [BBalOf(s, k.id, b.denom) EXCEPT !.amt = @ + e.amt]
            ELSE [bid |-> k.id, denom |-> b.denom, amt |-> e.amt, start |-> b.start]
  IN Ok([s1 EXCEPT !.bbal = {r \in @ : ~(r.bid = k.id /\ r.denom = b.denom)} \cup {nb}])

RECURSIVE PutFold(_, _, _, _, _)
PutFold(s, k, owner, cs, i) ==
  IF i > Len(cs) THEN Ok(s)
  ELSE LET r == PutOne(s, k, owner, cs[i]) IN
       IF r.ok THEN PutFold(r.s, k, owner, cs, i + 1) ELSE r

SumAmt(cs) == SumOver(DOMAIN cs, LAMBDA i : cs[i].amt)

\* m: [owner, basket_denom, credits (Seq of [denom, amt])]
H_Put(s, m) ==
  IF Len(m.credits) = 0 \/ ~HasBasket(s, m.basket_denom) THEN Fail(s) ELSE
  LET k == BasketByDenom(s, m.basket_denom) IN
  IF ~HasCreditType(s, k.ct) THEN Fail(s) ELSE
  LET r == PutFold(s, k, m.owner, m.credits, 1) IN
  IF ~r.ok THEN Fail(s) ELSE
  LET tokens == SumAmt(m.credits)
      r1 == MintStrict(r.s, ModBasket, k.denom, tokens)
      r2 == IF r1.ok THEN SendStrict(r1.s, ModBasket, m.owner, k.denom, tokens) ELSE r1
  IN IF r2.ok THEN OkR(r2.s, [amount_received |-> tokens]) ELSE Fail(s)

\* ------------------------------------------------------------------ Take
\* release `amt` credits of `denom` to `owner`, tradable or retired
Release(s, owner, denom, amt, retire) ==
  LET b  == BatchByDenom(s, denom)
      ob == BalOf(s, owner, b.key)
  IN IF ~retire THEN SetBal(s, [ob EXCEPT !.t = @ + amt])
     ELSE LET sup == SupplyOf(s, b.key) IN
          SetSupply(SetBal(s, [ob EXCEPT !.r = @ + amt]),
                    [sup EXCEPT !.t = @ - amt, !.r = @ + amt])

ReleaseOK(s, denom, amt, retire) ==
  /\ HasBatchDenom(s, denom)
  /\ retire => (HasSupply(s, BatchByDenom(s, denom).key)
                /\ SupplyOf(s, BatchByDenom(s, denom).key).t >= amt)

\* The keeper walks the (basket, batch start date) index: oldest start date
\* first; rows with EQUAL start dates come in the order of their batch denoms,
\* which the specification leaves open -- TakeLoop returns the SET of outcomes
\* over all orders of equal-dated rows.  An outcome is [ok, s, credits].
RECURSIVE TakeLoop(_, _, _, _, _, _)
TakeLoop(s, k, owner, need, retire, credits) ==
  LET rows == {r \in s.bbal : r.bid = k.id} IN
  IF rows = {} THEN {[ok |-> FALSE, s |-> s, credits |-> credits]}
  ELSE
  LET first == {r \in rows : \A q \in rows : r.start <= q.start} IN
  UNION { IF ~ReleaseOK(s, r.denom, MinOf(r.amt, need), retire)
          THEN {[ok |-> FALSE, s |-> s, credits |-> credits]}
          ELSE IF r.amt > need
          THEN {[ok |-> TRUE,
                 s  |-> [Release(s, owner, r.denom, need, retire) EXCEPT
                           !.bbal = (@ \ {r}) \cup {[r EXCEPT !.amt = @ - need]}],
                 credits |-> Append(credits, [denom |-> r.denom, amt |-> need])]}
          ELSE LET s1 == [Release(s, owner, r.denom, r.amt, retire) EXCEPT !.bbal = @ \ {r}]
                   c1 == Append(credits, [denom |-> r.denom, amt |-> r.amt])
               IN IF r.amt = need THEN {[ok |-> TRUE, s |-> s1, credits |-> c1]}
                  ELSE TakeLoop(s1, k, owner, need - r.amt, retire, c1)
        : r \in first }

\* m: [owner, basket_denom, amt, retire]
TakeResults(s, m) ==
  IF m.amt <= 0 \/ ~HasBasket(s, m.basket_denom) THEN {Fail(s)} ELSE
  LET k == BasketByDenom(s, m.basket_denom) IN
  IF \/ ~HasCreditType(s, k.ct)
     \/ (~k.dar /\ ~m.retire)
     \/ CoinBal(s, m.owner, k.denom) < m.amt
  THEN {Fail(s)} ELSE
  LET rb == SendAndBurnStrict(s, m.owner, ModBasket, k.denom, m.amt) IN
  IF ~rb.ok THEN {Fail(s)} ELSE
  { IF x.ok THEN OkR(x.s, [credits |-> x.credits]) ELSE Fail(s)
    : x \in TakeLoop(rb.s, k, m.owner, m.amt, m.retire, <<>>) }

\* ------------------------------------------------------------------ updates
H_UpdateCurator(s, m) ==
  IF ~HasBasket(s, m.denom) THEN Fail(s) ELSE
  LET k == BasketByDenom(s, m.denom) IN
  IF k.curator # m.curator THEN Fail(s)     \* curator # new_curator as strings: RawOK
  ELSE Ok([s EXCEPT !.baskets = (@ \ {k}) \cup {[k EXCEPT !.curator = m.new_curator]}])

H_UpdateBasketFee(s, m) ==
  IF m.authority # Gov THEN Fail(s)
  ELSE Ok([s EXCEPT !.basketfee = IF m.fee.set /\ m.fee.amt > 0 THEN m.fee ELSE NoCoin])

H_UpdateDateCriteria(s, m) ==
  IF m.authority # Gov \/ ~HasBasket(s, m.denom) THEN Fail(s) ELSE
  LET k == BasketByDenom(s, m.denom) IN
  Ok([s EXCEPT !.baskets = (@ \ {k}) \cup {[k EXCEPT !.crit = m.crit]}])

=============================================================================
