------------------------------ MODULE IdFormat ------------------------------
(***************************************************************************)
(* Functional specification of the identifier formats (C14, "for all       *)
(* strings fed to the format validators/parsers").  A candidate is a        *)
(* SEQUENCE OF ONE-CHARACTER STRINGS (TLC cannot look inside a string):     *)
(*   credit type abbreviation  [A-Z]{1,3}                                   *)
(*   class id                  <abbrev>[0-9]{2,}                            *)
(*   project id                <class id>-[0-9]{3,}                         *)
(*   batch denom               <project id>-[0-9]{8}-[0-9]{8}-[0-9]{3,}     *)
(* and the parsers that recover the embedded ids (x/ecocredit/base/utils.go *)
(* GetCreditTypeAbbrevFromClassID, GetClassIDFromProjectID,                 *)
(* GetClassIDFromBatchDenom, GetProjectIDFromBatchDenom).                   *)
(***************************************************************************)
EXTENDS Integers, Sequences, FiniteSets, TLC

Upper == {"A","B","C","D","E","F","G","H","I","J","K","L","M","N","O","P","Q","R","S","T","U","V","W","X","Y","Z"}
Digit == {"0","1","2","3","4","5","6","7","8","9"}

AllIn(q, S) == \A i \in DOMAIN q : q[i] \in S
IsAbbrev(q)  == Len(q) \in 1..3 /\ AllIn(q, Upper)
Digits(q, n) == Len(q) >= n /\ AllIn(q, Digit)          \* at least n digits, nothing else
DigitsEq(q, n) == Len(q) = n /\ AllIn(q, Digit)

\* the longest prefix of q without the character c, and what follows the first c
Before(q, c) == LET I == {i \in DOMAIN q : q[i] = c} IN
                IF I = {} THEN q ELSE SubSeq(q, 1, (CHOOSE i \in I : \A j \in I : i <= j) - 1)
After(q, c)  == LET I == {i \in DOMAIN q : q[i] = c} IN
                IF I = {} THEN <<>> ELSE SubSeq(q, (CHOOSE i \in I : \A j \in I : i <= j) + 1, Len(q))
HasChar(q, c) == \E i \in DOMAIN q : q[i] = c

\* letters first, then digits
LetterPrefix(q) == LET I == {i \in DOMAIN q : q[i] \in Digit} IN
                   IF I = {} THEN q ELSE SubSeq(q, 1, (CHOOSE i \in I : \A j \in I : i <= j) - 1)
IsClassId(q) ==
  LET p == LetterPrefix(q) IN
  IsAbbrev(p) /\ Digits(SubSeq(q, Len(p) + 1, Len(q)), 2)

IsProjectId(q) == HasChar(q, "-") /\ IsClassId(Before(q, "-")) /\ Digits(After(q, "-"), 3)

\* five fields separated by four dashes
IsBatchDenom(q) ==
  /\ HasChar(q, "-")
  /\ LET r1 == After(q, "-") IN          \* after the class id
     /\ HasChar(r1, "-")
     /\ LET r2 == After(r1, "-") IN      \* after the project sequence
        /\ HasChar(r2, "-")
        /\ LET r3 == After(r2, "-") IN   \* after the start date
           /\ HasChar(r3, "-")
           /\ IsClassId(Before(q, "-"))
           /\ Digits(Before(r1, "-"), 3)
           /\ DigitsEq(Before(r2, "-"), 8)
           /\ DigitsEq(Before(r3, "-"), 8)
           /\ Digits(After(r3, "-"), 3)

\* ---- parsers (defined on every string, meaningful on valid ids)
\* GetCreditTypeAbbrevFromClassID: up to the first NUMBER character
AbbrevOfClassId(q) == LetterPrefix(q)
\* GetClassIDFromProjectID / GetClassIDFromBatchDenom: up to the first dash
ClassIdOfProjectId(q) == Before(q, "-")
ClassIdOfBatchDenom(q) == Before(q, "-")
\* GetProjectIDFromBatchDenom: up to the second dash
ProjectIdOfBatchDenom(q) ==
  IF ~HasChar(q, "-") THEN q
  ELSE LET a == Before(q, "-")  r == After(q, "-") IN a \o <<"-">> \o Before(r, "-")

\* a sequence of characters as one string
RECURSIVE Join(_)
Join(q) == IF q = <<>> THEN "" ELSE Head(q) \o Join(Tail(q))

\* ---- what the formats promise (checked by TLC over all short sequences of a small alphabet)
F_ClassParts(q)   == IsClassId(q) => IsAbbrev(AbbrevOfClassId(q))
F_ProjectParts(q) == IsProjectId(q) => IsClassId(ClassIdOfProjectId(q))
F_BatchParts(q)   == IsBatchDenom(q) => /\ IsProjectId(ProjectIdOfBatchDenom(q))
                                        /\ ClassIdOfBatchDenom(q) = ClassIdOfProjectId(ProjectIdOfBatchDenom(q))
\* the three formats are mutually exclusive
F_Exclusive(q) == Cardinality({k \in {1, 2, 3} : (k = 1 /\ IsClassId(q)) \/ (k = 2 /\ IsProjectId(q)) \/ (k = 3 /\ IsBatchDenom(q))}) <= 1
=============================================================================
