-------------------------------- MODULE Dec --------------------------------
(***************************************************************************)
(* Functional specification of the decimal arithmetic of types/math (C19). *)
(* TLC's integers are 32-bit, so numbers are NOT TLC integers here: a       *)
(* natural number is a SEQUENCE OF DIGITS, least significant first, without *)
(* high zeros (<<>> is 0), and a decimal is                                 *)
(*     [neg |-> BOOLEAN, c |-> natural, e |-> Int]   = (-1)^neg * c * 10^e  *)
(* with a small TLC integer as exponent.  Arithmetic is schoolbook          *)
(* arithmetic on digit sequences, so 34-digit coefficients, 68-digit exact  *)
(* products and 36-digit quotients are computed exactly.                    *)
(*                                                                         *)
(* What is specified (types/math/dec.go, math.go over cockroachdb/apd):     *)
(*   Parse     the accepted syntax and the value it denotes                 *)
(*   Add, Sub  exact (apd.BaseContext)                                      *)
(*   Mul, Quo  correct to 34 significant digits, round half up              *)
(*   MulExact, QuoExact   the same result, or an error when digits had to   *)
(*             be discarded                                                 *)
(*   SafeSubBalance       x - y, an error when the result is negative       *)
(*   SdkIntTrim           integer part, truncated toward zero               *)
(*   Cmp                  numeric comparison                                *)
(*   QuoInteger, Rem      integer quotient (toward zero) and remainder      *)
(***************************************************************************)
EXTENDS Integers, Sequences, TLC

\* ------------------------------------------------------------------ naturals
TailE(a) == IF a = <<>> THEN <<>> ELSE Tail(a)
HeadE(a) == IF a = <<>> THEN 0 ELSE Head(a)

RECURSIVE StripN(_)
StripN(a) == IF a = <<>> THEN <<>>
             ELSE IF a[Len(a)] = 0 THEN StripN(SubSeq(a, 1, Len(a) - 1)) ELSE a

RECURSIVE AddC(_, _, _)
AddC(a, b, c) ==
  IF a = <<>> /\ b = <<>> THEN (IF c = 0 THEN <<>> ELSE <<c>>)
  ELSE LET s == HeadE(a) + HeadE(b) + c IN <<s % 10>> \o AddC(TailE(a), TailE(b), s \div 10)
NAdd(a, b) == StripN(AddC(a, b, 0))

\* a >= b required
RECURSIVE SubB(_, _, _)
SubB(a, b, br) ==
  IF a = <<>> THEN <<>>
  ELSE LET d == Head(a) - HeadE(b) - br IN
       <<IF d < 0 THEN d + 10 ELSE d>> \o SubB(Tail(a), TailE(b), IF d < 0 THEN 1 ELSE 0)
NSub(a, b) == StripN(SubB(a, b, 0))

\* -1, 0, 1  (arguments without high zeros)
RECURSIVE CmpFrom(_, _, _)
CmpFrom(a, b, i) == IF i = 0 THEN 0
                    ELSE IF a[i] < b[i] THEN -1 ELSE IF a[i] > b[i] THEN 1 ELSE CmpFrom(a, b, i - 1)
NCmp(a, b) == IF Len(a) < Len(b) THEN -1 ELSE IF Len(a) > Len(b) THEN 1 ELSE CmpFrom(a, b, Len(a))

RECURSIVE MulD(_, _, _)
MulD(a, d, c) == IF a = <<>> THEN (IF c = 0 THEN <<>> ELSE <<c>>)
                 ELSE LET s == Head(a) * d + c IN <<s % 10>> \o MulD(Tail(a), d, s \div 10)
RECURSIVE NMulR(_, _)
NMulR(a, b) == IF b = <<>> THEN <<>>
               ELSE AddC(MulD(a, Head(b), 0), <<0>> \o NMulR(a, Tail(b)), 0)
NMul(a, b) == IF a = <<>> \/ b = <<>> THEN <<>> ELSE StripN(NMulR(a, b))

Zeros(k) == [i \in 1..k |-> 0]
Shl(a, k) == IF a = <<>> \/ k <= 0 THEN a ELSE Zeros(k) \o a                \* a * 10^k
Shr(a, k) == IF k <= 0 THEN a ELSE IF k >= Len(a) THEN <<>> ELSE SubSeq(a, k + 1, Len(a))  \* a div 10^k
LowNonZero(a, k) == \E i \in 1..(IF k > Len(a) THEN Len(a) ELSE k) : a[i] # 0             \* a mod 10^k # 0
DigitAt(a, i) == IF i >= 1 /\ i <= Len(a) THEN a[i] ELSE 0

\* long division: [q, r] with a = q*b + r, 0 <= r < b   (b # 0)
RECURSIVE CountSub(_, _, _)
CountSub(r, b, n) == IF NCmp(r, b) < 0 THEN [n |-> n, r |-> r] ELSE CountSub(NSub(r, b), b, n + 1)
RECURSIVE DivFrom(_, _, _, _, _)
DivFrom(a, b, i, r, q) ==      \* q is built most significant first
  IF i = 0 THEN [q |-> q, r |-> r]
  ELSE LET r1 == StripN(<<a[i]>> \o r)
           s  == CountSub(r1, b, 0)
       IN DivFrom(a, b, i - 1, s.r, q \o <<s.n>>)
Rev(q) == [i \in 1..Len(q) |-> q[Len(q) + 1 - i]]
NDivMod(a, b) == LET d == DivFrom(a, b, Len(a), <<>>, <<>>) IN [q |-> StripN(Rev(d.q)), r |-> d.r]

\* ------------------------------------------------------------------ decimals
Mk(neg, c, e) == [neg |-> neg, c |-> c, e |-> e]
IsZeroD(x) == x.c = <<>>
MinI(a, b) == IF a < b THEN a ELSE b
AlignC(x, e) == Shl(x.c, x.e - e)                \* coefficient of x at the exponent e <= x.e

\* numeric comparison: -1, 0, 1
DCmp(x, y) ==
  IF IsZeroD(x) /\ IsZeroD(y) THEN 0
  ELSE IF IsZeroD(x) THEN (IF y.neg THEN 1 ELSE -1)
  ELSE IF IsZeroD(y) THEN (IF x.neg THEN -1 ELSE 1)
  ELSE IF x.neg /\ ~y.neg THEN -1
  ELSE IF ~x.neg /\ y.neg THEN 1
  ELSE LET e == MinI(x.e, y.e)
           m == NCmp(AlignC(x, e), AlignC(y, e))
       IN IF x.neg THEN -m ELSE m

DNeg(x) == [x EXCEPT !.neg = ~@]
DAdd(x, y) ==
  LET e  == MinI(x.e, y.e)
      cx == AlignC(x, e)
      cy == AlignC(y, e)
  IN IF x.neg = y.neg THEN Mk(x.neg, NAdd(cx, cy), e)
     ELSE IF NCmp(cx, cy) >= 0 THEN Mk(x.neg, NSub(cx, cy), e)
     ELSE Mk(y.neg, NSub(cy, cx), e)
DSub(x, y) == DAdd(x, DNeg(y))

Prec == 34
\* round a decimal to at most Prec significant digits, half up: [d, rounded]
\* (rounded = digits were discarded, zero or not: the GDA "Rounded" condition)
Round(z) ==
  IF Len(z.c) <= Prec THEN [d |-> z, rounded |-> FALSE]
  ELSE LET k  == Len(z.c) - Prec
           q  == Shr(z.c, k)
           up == z.c[k] >= 5
           q1 == IF up THEN NAdd(q, <<1>>) ELSE q
       IN IF Len(q1) > Prec                      \* 99..9 + 1: one more digit goes
          THEN [d |-> Mk(z.neg, Shr(q1, 1), z.e + k + 1), rounded |-> TRUE]
          ELSE [d |-> Mk(z.neg, q1, z.e + k), rounded |-> TRUE]

DMulExactValue(x, y) == Mk(x.neg # y.neg, NMul(x.c, y.c), x.e + y.e)
DMul(x, y) == Round(DMulExactValue(x, y))        \* Mul: .d ; MulExact: error iff .rounded

\* quotient to Prec significant digits, half up; [ok, d, rounded]
\*   the dividend is scaled so that the integer quotient has Prec + 1 or Prec + 2 digits
DQuo(x, y) ==
  IF IsZeroD(y) THEN [ok |-> FALSE, d |-> Mk(FALSE, <<>>, 0), rounded |-> FALSE]
  ELSE IF IsZeroD(x) THEN [ok |-> TRUE, d |-> Mk(x.neg # y.neg, <<>>, 0), rounded |-> FALSE]
  ELSE LET s  == Len(y.c) - Len(x.c) + Prec + 2
           sc == IF s > 0 THEN s ELSE 0
           dm == NDivMod(Shl(x.c, sc), y.c)
           z  == Mk(x.neg # y.neg, dm.q, x.e - y.e - sc)
           \* exact iff no remainder and the quotient, without its low zeros, fits Prec digits
       IN IF dm.r = <<>> /\ ~LowNonZero(dm.q, Len(dm.q) - Prec)
          THEN [ok |-> TRUE, d |-> z, rounded |-> FALSE]
          ELSE [ok |-> TRUE, d |-> Round(z).d, rounded |-> TRUE]

\* integer quotient and remainder (apd QuoInteger / Rem under the 34-digit context): both operands are
\* brought to the smaller exponent, the integer division is exact; an error when the divisor is zero or
\* the integer quotient needs more than Prec digits ("division impossible").  The remainder has the sign
\* of the dividend and is rounded to Prec digits like every other result.
NumDigitsN(n) == IF n = <<>> THEN 1 ELSE Len(n)
Upscale(x, y) == LET s == MinI(x.e, y.e) IN [a |-> AlignC(x, s), b |-> AlignC(y, s), s |-> s]
DQuoInteger(x, y) ==
  IF IsZeroD(y) THEN [ok |-> FALSE, d |-> Mk(FALSE, <<>>, 0)]
  ELSE LET u == Upscale(x, y)  dm == NDivMod(u.a, u.b) IN
       IF NumDigitsN(dm.q) > Prec THEN [ok |-> FALSE, d |-> Mk(FALSE, <<>>, 0)]
       ELSE [ok |-> TRUE, d |-> Mk(x.neg # y.neg, dm.q, 0)]
DRem(x, y) ==
  IF IsZeroD(y) THEN [ok |-> FALSE, d |-> Mk(FALSE, <<>>, 0)]
  ELSE LET u == Upscale(x, y)  dm == NDivMod(u.a, u.b) IN
       IF NumDigitsN(dm.q) > Prec THEN [ok |-> FALSE, d |-> Mk(FALSE, <<>>, 0)]
       ELSE [ok |-> TRUE, d |-> Round(Mk(x.neg, dm.r, u.s)).d]

\* truncation toward zero to an integer (as a decimal with exponent 0)
DTrim(x) == IF x.e >= 0 THEN Mk(x.neg, Shl(x.c, x.e), 0) ELSE Mk(x.neg, Shr(x.c, -x.e), 0)

\* ------------------------------------------------------------------ parsing
\* a string is a sequence of one-character strings
DigitVal(ch) == CASE ch = "0" -> 0 [] ch = "1" -> 1 [] ch = "2" -> 2 [] ch = "3" -> 3 [] ch = "4" -> 4
                  [] ch = "5" -> 5 [] ch = "6" -> 6 [] ch = "7" -> 7 [] ch = "8" -> 8 [] ch = "9" -> 9
                  [] OTHER -> -1
IsDigitCh(ch) == DigitVal(ch) >= 0
AllDigits(q) == \A i \in DOMAIN q : IsDigitCh(q[i])
\* most-significant-first characters -> natural
NatOf(q) == StripN([i \in 1..Len(q) |-> DigitVal(q[Len(q) + 1 - i])])
\* small non-negative TLC integer of a digit string (exponents)
RECURSIVE IntOf(_)
IntOf(q) == IF q = <<>> THEN 0 ELSE IntOf(SubSeq(q, 1, Len(q) - 1)) * 10 + DigitVal(q[Len(q)])

FirstIdx(q, S) == LET I == {i \in DOMAIN q : q[i] \in S} IN
                  IF I = {} THEN 0 ELSE CHOOSE i \in I : \A j \in I : i <= j
Bad == [ok |-> FALSE, d |-> Mk(FALSE, <<>>, 0)]

\* [sign] (digits [. [digits]] | . digits) [(e|E) [sign] digits]      ("" is read as "0")
Parse(str) ==
  IF str = <<>> THEN [ok |-> TRUE, d |-> Mk(FALSE, <<>>, 0)] ELSE
  LET neg  == str[1] = "-"
      body == IF str[1] \in {"+", "-"} THEN Tail(str) ELSE str
      ei   == FirstIdx(body, {"e", "E"})
      mant == IF ei = 0 THEN body ELSE SubSeq(body, 1, ei - 1)
      expo == IF ei = 0 THEN <<>> ELSE SubSeq(body, ei + 1, Len(body))
      eneg == expo # <<>> /\ expo[1] = "-"
      edig == IF expo # <<>> /\ expo[1] \in {"+", "-"} THEN Tail(expo) ELSE expo
      di   == FirstIdx(mant, {"."})
      ip   == IF di = 0 THEN mant ELSE SubSeq(mant, 1, di - 1)
      fp   == IF di = 0 THEN <<>> ELSE SubSeq(mant, di + 1, Len(mant))
  IN IF \/ ~AllDigits(ip) \/ ~AllDigits(fp)
        \/ (ip = <<>> /\ fp = <<>>)                         \* no digit at all
        \/ (ei # 0 /\ (edig = <<>> \/ ~AllDigits(edig)))      \* "1e", "1e+", "1e5x"
        \/ Len(edig) > 6
     THEN Bad
     ELSE [ok |-> TRUE,
           d |-> Mk(neg, NatOf(ip \o fp), (IF eneg THEN -IntOf(edig) ELSE IntOf(edig)) - Len(fp))]

=============================================================================
