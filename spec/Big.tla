-------------------------------- MODULE Big --------------------------------
(***************************************************************************)
(* The credit ledger and one basket over ARBITRARY-PRECISION amounts.       *)
(*                                                                         *)
(* Ecocredit.tla counts credits in TLC integers (per-trace units, < 2^30). *)
(* The quantifiers of C01, C02, C04 and C05 also name "very large values"  *)
(* and "very large totals"; those are decided here.  Amounts are decimal    *)
(* STRINGS (sequences of characters) in messages and in the logged state,   *)
(* and Dec.tla's digit-sequence arithmetic gives their exact values, so a   *)
(* supply of 10^33 credits next to a balance of 10^-6 is ordinary.          *)
(*                                                                         *)
(* State (record bs): two batches (1 = older start date, 2 = younger) of    *)
(* one class, one basket without date criteria, two accounts.               *)
(*   bal[a][b] = [t, r]     tradable / retired balance rows                 *)
(*   sup[b]    = [t, r, c]  tradable / retired / cancelled supply           *)
(*   kb[b]                  credits of batch b held by the basket           *)
(*   tok[a], tsup           basket tokens per account, bank supply          *)
(* Handlers are total operators H(s, m) -> [ok, s] like those of Base.tla   *)
(* and Basket.tla; the decimal rules they use are the ones the keepers use: *)
(*   amounts: accepted syntax, non-negative (positive where the keeper      *)
(*            says so), at most 6 decimal places AS WRITTEN;                 *)
(*   balances and supplies: exact addition and subtraction (no rounding);   *)
(*   Put:  tokens = amount * 10^6 must not need more than 34 significant    *)
(*         digits (MulExact), else the whole message fails;                 *)
(*   Take: credits = tokens / 10^6 likewise (QuoExact); oldest batch first. *)
(***************************************************************************)
EXTENDS Dec

Accts == {"a1", "a2"}
Batches == {1, 2}
Zero == Mk(FALSE, <<>>, 0)
Mega == Mk(FALSE, <<1>>, 6)                      \* 10^6 = 10^precision

Places(d) == IF d.e < 0 THEN -d.e ELSE 0         \* decimal places as written (not reduced)
\* a credit amount of a message: [ok, d]
Amount(str, positive) ==
  LET p == Parse(str) IN
  IF p.ok /\ ~(p.d.neg /\ ~IsZeroD(p.d)) /\ Places(p.d) <= 6 /\ (positive => ~IsZeroD(p.d))
  THEN [ok |-> TRUE, d |-> Mk(FALSE, p.d.c, p.d.e)] ELSE [ok |-> FALSE, d |-> Zero]
\* a token amount of MsgTake: decimal digits only (sdk.Int), positive
TokenAmount(str) ==
  IF str # <<>> /\ AllDigits(str) /\ str[1] # "0" THEN [ok |-> TRUE, d |-> Mk(FALSE, NatOf(str), 0)]
  ELSE [ok |-> FALSE, d |-> Zero]

Ge(x, y) == DCmp(x, y) >= 0
Eq(x, y) == DCmp(x, y) = 0

BigInit == [bal  |-> [a \in Accts |-> [b \in Batches |-> [t |-> Zero, r |-> Zero]]],
            sup  |-> [b \in Batches |-> [t |-> Zero, r |-> Zero, c |-> Zero]],
            kb   |-> [b \in Batches |-> Zero],
            tok  |-> [a \in Accts |-> Zero],
            tsup |-> Zero]

Fail(s) == [ok |-> FALSE, s |-> s]
Ok(s) == [ok |-> TRUE, s |-> s]

\* MsgMintBatchCredits with one issuance entry
H_Mint(s, m) ==
  LET t == Amount(m.t, FALSE)  r == Amount(m.r, FALSE) IN
  IF ~t.ok \/ ~r.ok THEN Fail(s) ELSE
  Ok([s EXCEPT !.bal[m.to][m.b].t = DAdd(@, t.d), !.bal[m.to][m.b].r = DAdd(@, r.d),
               !.sup[m.b].t = DAdd(@, t.d), !.sup[m.b].r = DAdd(@, r.d)])

\* MsgSend with one entry: the tradable part completely, then the retired part
H_Send(s, m) ==
  LET t == Amount(m.t, FALSE)  r == Amount(m.r, FALSE) IN
  IF ~t.ok \/ ~r.ok \/ m.from = m.to THEN Fail(s) ELSE
  IF ~Ge(s.bal[m.from][m.b].t, DAdd(t.d, r.d)) THEN Fail(s) ELSE
  LET s1 == [s EXCEPT !.bal[m.from][m.b].t = DSub(@, t.d)]
      s2 == [s1 EXCEPT !.bal[m.to][m.b].t = DAdd(@, t.d)]
      s3 == [s2 EXCEPT !.bal[m.from][m.b].t = DSub(@, r.d)]
      s4 == [s3 EXCEPT !.bal[m.to][m.b].r = DAdd(@, r.d),
                       !.sup[m.b].t = DSub(@, r.d), !.sup[m.b].r = DAdd(@, r.d)]
  IN Ok(s4)

H_Retire(s, m) ==
  LET x == Amount(m.x, TRUE) IN
  IF ~x.ok \/ ~Ge(s.bal[m.a][m.b].t, x.d) THEN Fail(s) ELSE
  Ok([s EXCEPT !.bal[m.a][m.b].t = DSub(@, x.d), !.bal[m.a][m.b].r = DAdd(@, x.d),
               !.sup[m.b].t = DSub(@, x.d), !.sup[m.b].r = DAdd(@, x.d)])

H_Cancel(s, m) ==
  LET x == Amount(m.x, TRUE) IN
  IF ~x.ok \/ ~Ge(s.bal[m.a][m.b].t, x.d) THEN Fail(s) ELSE
  Ok([s EXCEPT !.bal[m.a][m.b].t = DSub(@, x.d),
               !.sup[m.b].t = DSub(@, x.d), !.sup[m.b].c = DAdd(@, x.d)])

\* MsgPut with one entry
H_Put(s, m) ==
  LET x == Amount(m.x, TRUE) IN
  IF ~x.ok \/ ~Ge(s.bal[m.a][m.b].t, x.d) THEN Fail(s) ELSE
  LET p == DMul(Mega, x.d) IN
  IF p.rounded THEN Fail(s) ELSE
  LET tk == DTrim(DMulExactValue(Mega, x.d)) IN
  Ok([s EXCEPT !.bal[m.a][m.b].t = DSub(@, x.d), !.kb[m.b] = DAdd(@, x.d),
               !.tok[m.a] = DAdd(@, tk), !.tsup = DAdd(@, tk)])

\* MsgTake: tokens burnt, credits = tokens / 10^6 (exact within 34 digits or the message fails),
\* released oldest batch first into the tradable (or, retire, the retired) balance
Release(s, a, b, x, retire) ==
  IF retire THEN [s EXCEPT !.kb[b] = DSub(@, x), !.bal[a][b].r = DAdd(@, x),
                           !.sup[b].t = DSub(@, x), !.sup[b].r = DAdd(@, x)]
  ELSE [s EXCEPT !.kb[b] = DSub(@, x), !.bal[a][b].t = DAdd(@, x)]
H_Take(s, m) ==
  LET n == TokenAmount(m.n) IN
  IF ~n.ok \/ ~Ge(s.tok[m.a], n.d) THEN Fail(s) ELSE
  LET q == DQuo(n.d, Mega) IN
  IF ~q.ok \/ q.rounded THEN Fail(s) ELSE
  LET need == q.d
      s0 == [s EXCEPT !.tok[m.a] = DSub(@, n.d), !.tsup = DSub(@, n.d)]
      from1 == IF Ge(need, s0.kb[1]) THEN s0.kb[1] ELSE need          \* batch 1 is the older one
      rest == DSub(need, from1)
  IN IF ~Ge(s0.kb[2], rest) THEN Fail(s)                              \* "balance invariant broken"
     ELSE LET s1 == IF IsZeroD(from1) THEN s0 ELSE Release(s0, m.a, 1, from1, m.retire)
              s2 == IF IsZeroD(rest) THEN s1 ELSE Release(s1, m.a, 2, rest, m.retire)
          IN Ok(s2)

Apply(s, m) ==
  CASE m.type = "Mint" -> H_Mint(s, m)
    [] m.type = "Send" -> H_Send(s, m)
    [] m.type = "Retire" -> H_Retire(s, m)
    [] m.type = "Cancel" -> H_Cancel(s, m)
    [] m.type = "Put" -> H_Put(s, m)
    [] m.type = "Take" -> H_Take(s, m)
    [] OTHER -> Fail(s)

\* ---------------------------------------------------------------- properties

Total(s, b) == DAdd(DAdd(s.sup[b].t, s.sup[b].r), s.sup[b].c)

\* C01: tradable supply = balances + basket holdings; retired supply = retired balances
Big_C01_Conservation(s) ==
  \A b \in Batches :
    /\ Eq(s.sup[b].t, DAdd(DAdd(s.bal["a1"][b].t, s.bal["a2"][b].t), s.kb[b]))
    /\ Eq(s.sup[b].r, DAdd(s.bal["a1"][b].r, s.bal["a2"][b].r))
Big_C01_NonNegative(s) ==
  /\ \A a \in Accts, b \in Batches : Ge(s.bal[a][b].t, Zero) /\ Ge(s.bal[a][b].r, Zero)
  /\ \A b \in Batches : Ge(s.sup[b].t, Zero) /\ Ge(s.sup[b].r, Zero) /\ Ge(s.sup[b].c, Zero) /\ Ge(s.kb[b], Zero)
\* C02: tradable + retired + cancelled = issued (ghost: sum of the amounts of the successful mints)
Big_C02_Accounting(s, issued) == \A b \in Batches : Eq(Total(s, b), issued[b])
IssuedNext(issued, m, ok) ==
  IF ok /\ m.type = "Mint" THEN [issued EXCEPT ![m.b] = DAdd(@, DAdd(Amount(m.t, FALSE).d, Amount(m.r, FALSE).d))]
  ELSE issued
\* C04: retired balances, retired and cancelled supplies never decrease
Big_C04_Step(s, s2) ==
  /\ \A a \in Accts, b \in Batches : Ge(s2.bal[a][b].r, s.bal[a][b].r)
  /\ \A b \in Batches : Ge(s2.sup[b].r, s.sup[b].r) /\ Ge(s2.sup[b].c, s.sup[b].c)
\* C05: token supply = basket holdings * 10^6, exactly; holders' tokens add up to the supply
Big_C05_Backed(s) ==
  /\ Eq(s.tsup, DMulExactValue(Mega, DAdd(s.kb[1], s.kb[2])))
  /\ Eq(s.tsup, DAdd(s.tok["a1"], s.tok["a2"]))
\* C05: Put mints exactly amount * 10^6 to the depositor; Take burns exactly the amount taken and
\* releases amount / 10^6 credits in total; nothing else moves tokens
Big_C05_Step(s, s2, m, ok) ==
  IF ok /\ m.type = "Put" THEN
       LET tk == DMulExactValue(Mega, Amount(m.x, TRUE).d) IN
       /\ Eq(s2.tok[m.a], DAdd(s.tok[m.a], tk)) /\ Eq(s2.tsup, DAdd(s.tsup, tk))
       /\ \A a \in Accts \ {m.a} : Eq(s2.tok[a], s.tok[a])
  ELSE IF ok /\ m.type = "Take" THEN
       LET n == TokenAmount(m.n).d IN
       /\ Eq(s2.tok[m.a], DSub(s.tok[m.a], n)) /\ Eq(s2.tsup, DSub(s.tsup, n))
       /\ \A a \in Accts \ {m.a} : Eq(s2.tok[a], s.tok[a])
       /\ Eq(DMulExactValue(Mega, DSub(DAdd(s.kb[1], s.kb[2]), DAdd(s2.kb[1], s2.kb[2]))), n)
  ELSE Eq(s2.tsup, s.tsup) /\ \A a \in Accts : Eq(s2.tok[a], s.tok[a])
\* C11 (oldest first) on large amounts: the younger batch is touched only when the older is drained
Big_C11_Step(s, s2, m, ok) ==
  (ok /\ m.type = "Take" /\ ~Eq(s2.kb[2], s.kb[2])) => IsZeroD(s2.kb[1])

\* same state up to the rendering of the numbers
SameState(s, s2) ==
  /\ \A a \in Accts, b \in Batches : Eq(s.bal[a][b].t, s2.bal[a][b].t) /\ Eq(s.bal[a][b].r, s2.bal[a][b].r)
  /\ \A b \in Batches : Eq(s.sup[b].t, s2.sup[b].t) /\ Eq(s.sup[b].r, s2.sup[b].r) /\ Eq(s.sup[b].c, s2.sup[b].c)
                        /\ Eq(s.kb[b], s2.kb[b])
  /\ \A a \in Accts : Eq(s.tok[a], s2.tok[a])
  /\ Eq(s.tsup, s2.tsup)
=============================================================================
