------------------------------- MODULE Types -------------------------------
(***************************************************************************)
(* Common vocabulary of the regen-ledger application state machine.        *)
(*                                                                         *)
(* The chain state is ONE record `s` whose fields are the ORM tables of    *)
(* x/ecocredit (base, basket, marketplace) as SETS OF ROWS, the ORM        *)
(* auto-increment counters, the singletons, the projection of x/bank       *)
(* (coin balances and supplies) and the block time.  A message handler is  *)
(* a total operator  H_T(s, m)  returning a result record                  *)
(*      [ok |-> BOOLEAN, s |-> successor state, resp |-> response]         *)
(* with  ok = FALSE => s unchanged  (runTx discards every write of a       *)
(* failed message).  The same operators are used by the exhaustive         *)
(* model-checking configurations (MC_*.tla) and by the trace               *)
(* specification (TraceEco.tla), which feeds them the states and messages  *)
(* recorded from the real keepers.                                         *)
(*                                                                         *)
(* Vocabulary (see DESIGN.md section 3):                                   *)
(*  - accounts are strings: "a1".."a9", "gov" (the governance authority),  *)
(*    "mod:ecocredit", "mod:basket", "mod:feepool" (module accounts);      *)
(*    any other address appears as its bech32 string;                      *)
(*  - credit amounts are naturals in a per-trace unit (the harness divides *)
(*    every amount by the gcd of all amounts of the trace); basket token   *)
(*    amounts are normalised by the same unit so that the documented       *)
(*    ratio 10^precision becomes 1;                                        *)
(*  - time is an integer tick: tick t = 1969-01-01T00:00Z + 73*t days, so  *)
(*    5 ticks = 1 calendar year for t in 0..19 and tick 5 is the Unix      *)
(*    epoch (the timestamp the ORM cannot tell from "absent");             *)
(*  - identifiers are the real strings ("C01", "C01-001",                  *)
(*    "C01-001-19700101-19710101-001", "eco.uC.NCT").                      *)
(***************************************************************************)
EXTENDS Integers, Sequences, FiniteSets, TLC
LOCAL INSTANCE FiniteSetsExt

\* ------------------------------------------------------------------ misc
MinOf(a, b) == IF a < b THEN a ELSE b
MaxOf(a, b) == IF a > b THEN a ELSE b


\* Sum of F(x) over a finite set S.
SumOver(S, F(_)) == MapThenSumSet(F, S)

\* Floor division that is also correct for negative numerators.
FloorDiv(a, b) == IF a >= 0 THEN a \div b ELSE -((-a + b - 1) \div b)

\* ------------------------------------------------------------------ results
NoResp == [none |-> TRUE]
Ok(s)        == [ok |-> TRUE,  s |-> s, resp |-> NoResp]
OkR(s, resp) == [ok |-> TRUE,  s |-> s, resp |-> resp]
Fail(s)      == [ok |-> FALSE, s |-> s, resp |-> NoResp]
\* all-or-nothing: a failed result never carries a modified state
Atomic(s0, r) == IF r.ok THEN r ELSE Fail(s0)

\* ------------------------------------------------------------------ time
EpochTick == 5
TicksPerYear == 5
\* tick of 1 January of (year of t) - n
YearStart(t, n) == TicksPerYear * FloorDiv(t, TicksPerYear) - TicksPerYear * n

\* YYYYMMDD of tick t (73-day lattice starting 1969-01-01), used in batch denoms
DateStr(t) ==
  CASE t = 0  -> "19690101" [] t = 1  -> "19690315" [] t = 2  -> "19690527"
    [] t = 3  -> "19690808" [] t = 4  -> "19691020" [] t = 5  -> "19700101"
    [] t = 6  -> "19700315" [] t = 7  -> "19700527" [] t = 8  -> "19700808"
    [] t = 9  -> "19701020" [] t = 10 -> "19710101" [] t = 11 -> "19710315"
    [] t = 12 -> "19710527" [] t = 13 -> "19710808" [] t = 14 -> "19711020"
    [] t = 15 -> "19720101" [] t = 16 -> "19720314" [] t = 17 -> "19720526"
    [] t = 18 -> "19720807" [] t = 19 -> "19721019"
    \* first-millennium dates (four-digit, zero-padded years)
    [] t = -4850 -> "09990824" [] t = -4849 -> "09991105"
    [] t = -9840 -> "00020423" [] t = -9839 -> "00020705"
    [] OTHER  -> "????????"

\* ------------------------------------------------------------------ address spellings
\* Messages carry addresses as STRINGS; the state stores address BYTES.  "A1" is the
\* all-upper-case bech32 spelling of account a1's address: a valid spelling of the same
\* account and a different string.  Acct maps a spelling to the account.
Acct(o) == CASE o = "A1" -> "a1" [] o = "A2" -> "a2" [] o = "A3" -> "a3" [] o = "A4" -> "a4" [] OTHER -> o

\* optional timestamp
NoTime == [set |-> FALSE, t |-> 0]
SomeTime(t) == [set |-> TRUE, t |-> t]

\* ------------------------------------------------------------------ identifiers
Pad(n, w) ==
  LET str == ToString(n) IN
  IF w = 2 THEN (IF n < 10 THEN "0" \o str ELSE str)
  ELSE IF n < 10 THEN "00" \o str ELSE IF n < 100 THEN "0" \o str ELSE str

ClassIdOf(ct, seq)       == ct \o Pad(seq, 2)
ProjectIdOf(classId, seq) == classId \o "-" \o Pad(seq, 3)
BatchDenomOf(projectId, start, end, seq) ==
  projectId \o "-" \o DateStr(start) \o "-" \o DateStr(end) \o "-" \o Pad(seq, 3)
BasketDenomOf(ct, name) == "eco.u" \o ct \o "." \o name
BasketDisplayOf(ct, name) == "eco." \o ct \o "." \o name

\* ------------------------------------------------------------------ accounts
Gov         == "gov"
ModEco      == "mod:ecocredit"
ModBasket   == "mod:basket"
ModFeePool  == "mod:feepool"
ModuleAccounts == {ModEco, ModBasket, ModFeePool}

\* letter-case folding of the chain names used by the bridge (strings.ToLower)
Lower(x) ==
  CASE x = "Polygon" -> "polygon" [] x = "POLYGON" -> "polygon"
    [] x = "Ethereum" -> "ethereum" [] OTHER -> x

\* ------------------------------------------------------------------ optional coin
NoCoin == [set |-> FALSE, denom |-> "", amt |-> 0]
SomeCoin(d, n) == [set |-> TRUE, denom |-> d, amt |-> n]

\* fee rate as stored in FeeParams: kind "empty" (unset / ""), "zero" ("0",
\* "0.0"...), "pos" (num/den > 0)
RateEmpty == [kind |-> "empty", num |-> 0, den |-> 1]
RateZero  == [kind |-> "zero",  num |-> 0, den |-> 1]
Rate(n, d) == [kind |-> "pos", num |-> n, den |-> d]

=============================================================================
