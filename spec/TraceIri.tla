------------------------------ MODULE TraceIri ------------------------------
(***************************************************************************)
(* Validates what the real ContentHash.Validate / ToIRI / ParseIRI returned *)
(* for the cases enumerated from Iri.tla (results.ndjson, one case per      *)
(* line) against the functional specification:                              *)
(*   layer B (conformance): the code accepts exactly the content hashes the *)
(*     specification calls valid, and two cases get the same IRI string iff *)
(*     the specification gives them the same IRI model;                     *)
(*   layer A (C15): round trip, injectivity, accepted IRIs re-encode.       *)
(***************************************************************************)
EXTENDS Iri, Json, TLCExt

CONSTANT ByteFields
Log == ndJsonDeserialize("trace.ndjson")

VARIABLE l
Init == l = 1
Next == l < Len(Log) /\ l' = l + 1
Spec == Init /\ [][Next]_l
Mark == TLCSet(1, l)
TraceAccepted == TLCGet(1) = Len(Log)

Cur == Log[l]
IsCh(x) == x.k = "ch"

\* ---- layer A
C15_RoundTripOnCode ==
  (IsCh(Cur) /\ Cur.valid) =>
     /\ Cur.to_ok /\ Cur.parse_ok
     /\ Cur.parsed = Cur.ch

C15_InjectiveOnCode ==
  (IsCh(Cur) /\ Cur.valid /\ Cur.to_ok) =>
     \A j \in 1..(l - 1) :
        (IsCh(Log[j]) /\ Log[j].valid /\ Log[j].to_ok /\ Log[j].iri = Cur.iri) => Log[j].ch = Cur.ch

\* any IRI the chain accepts (ParseIRI succeeds) re-encodes to the identical string
C15_AcceptedReencodes ==
  /\ (IsCh(Cur) /\ Cur.parse_ok) => (Cur.re_ok /\ Cur.re = Cur.iri)
  /\ (Cur.k = "str" /\ Cur.parse_ok) => (Cur.re_ok /\ Cur.re = Cur.iri)

C15_NoPanic == "panic" \notin DOMAIN Cur

\* ---- layer B
Conf_Valid == IsCh(Cur) => (Cur.valid = Valid(Cur.ch, ByteFields) /\ Cur.to_ok = Cur.valid)
Conf_SameIriIffSameModel ==
  (IsCh(Cur) /\ Cur.to_ok) =>
     \A j \in 1..(l - 1) :
        (IsCh(Log[j]) /\ Log[j].to_ok) => ((Log[j].iri = Cur.iri) <=> (IriOf(Log[j].ch) = IriOf(Cur.ch)))

=============================================================================
