------------------------------- MODULE MC_Big -------------------------------
(* Bounded instances of Big.tla: the ledger over arbitrary-precision amounts.
   The amount pool mixes the smallest unit with 34- and 35-digit values, so that
   sums need 40 significant digits, products by 10^6 hit the 34-digit limit of
   MulExact/QuoExact, and a Take may have to drain the older batch to the last
   10^-6 credit.  Exhaustive to depth MaxSteps (quick: 3); simulation (GenNext)
   generates the behaviours executed on the code. *)
EXTENDS Big, FiniteSets, Randomization
CONSTANTS PoolSel, MaxSteps
VARIABLES bs, bev, issued, cnt
vars == <<bs, bev, issued, cnt>>

Rep(ch, n) == [i \in 1..n |-> ch]
One     == <<"1">>
Dust    == <<"0", ".", "0", "0", "0", "0", "0", "1">>           \* 10^-6
E33     == <<"1">> \o Rep("0", 33)                              \* 10^33 (34 digits)
Nines   == Rep("9", 34)                                         \* 10^34 - 1
E34     == <<"1">> \o Rep("0", 34)                              \* 35 digits: amount * 10^6 cannot be exact in 34
Mixed   == <<"1">> \o Rep("0", 33) \o <<".", "5">>              \* 35 significant digits
Half    == <<"0", ".", "5">>
Seven   == <<"0", ".", "0", "0", "0", "0", "0", "0", "1">>      \* seven decimal places: rejected
Padded  == <<"2", ".", "5", "0", "0", "0", "0", "0">>           \* 2.500000
Sci     == <<"1", "e", "3", "3">>                               \* 1e33
Neg     == <<"-", "1">>
Zer     == <<"0">>
Pool == CASE PoolSel = "small" -> {One, Dust, E33}
          [] PoolSel = "mid"   -> {One, Dust, E33, Nines, Mixed}
          [] OTHER             -> {One, Dust, E33, Nines, E34, Mixed, Half, Seven, Padded, Sci, Neg}
\* token amounts of Take: 1, 10^6, 10^39, 10^39 + 1 (whose credits need 40 digits), 5*10^5
TokPool == {<<"1">>, <<"1">> \o Rep("0", 6), <<"1">> \o Rep("0", 39), <<"1">> \o Rep("0", 38) \o <<"1">>, <<"5">> \o Rep("0", 5),
            Rep("9", 34) \o Rep("0", 6)}

Msgs(T) ==
  CASE T = "Mint"   -> {[type |-> T, b |-> b, to |-> a, t |-> x, r |-> y] : b \in Batches, a \in Accts, x \in Pool, y \in {Zer} \cup (IF PoolSel = "small" THEN {} ELSE {Dust, E33})}
    [] T = "Send"   -> {[type |-> T, b |-> b, from |-> a, to |-> a2, t |-> x, r |-> y] : b \in Batches, a \in Accts, a2 \in Accts, x \in Pool \cup {Zer}, y \in {Zer, Dust}}
    [] T = "Retire" -> {[type |-> T, b |-> b, a |-> a, x |-> x] : b \in Batches, a \in Accts, x \in Pool}
    [] T = "Cancel" -> {[type |-> T, b |-> b, a |-> a, x |-> x] : b \in Batches, a \in Accts, x \in Pool}
    [] T = "Put"    -> {[type |-> T, b |-> b, a |-> a, x |-> x] : b \in Batches, a \in Accts, x \in Pool}
    [] T = "Take"   -> {[type |-> T, a |-> a, n |-> n, retire |-> rt] : a \in Accts, n \in TokPool, rt \in BOOLEAN}
Types == {"Mint", "Send", "Retire", "Cancel", "Put", "Take"}

IssuedInit == [b \in Batches |-> Zero]
Init == bs = BigInit /\ bev = [type |-> "Init", ok |-> TRUE, m |-> [type |-> "Init"]] /\ issued = IssuedInit /\ cnt = 0

Step(m) ==
  LET r == Apply(bs, m) IN
  /\ bs' = r.s /\ bev' = [type |-> m.type, ok |-> r.ok, m |-> m]
  /\ issued' = IssuedNext(issued, m, r.ok) /\ cnt' = cnt + 1
Next == cnt < MaxSteps /\ \E T \in Types : \E m \in Msgs(T) : Step(m)
Spec == Init /\ [][Next]_vars
View == <<bs, issued, cnt>>

\* generation: one type per step, mostly accepted messages; one step in five a NEAR MISS -- a Put or Take
\* that is covered by the balance and fails only because the product or quotient by 10^6 needs more than
\* 34 digits (exactly the messages a rounding multiply would let through)
Covered(m) ==
  CASE m.type = "Put"  -> Amount(m.x, TRUE).ok /\ Ge(bs.bal[m.a][m.b].t, Amount(m.x, TRUE).d)
    [] m.type = "Take" -> TokenAmount(m.n).ok /\ Ge(bs.tok[m.a], TokenAmount(m.n).d)
    [] OTHER -> FALSE
GenNext ==
  \* (the set depends on the state: TLC evaluates a constant RandomSubset once per run)
  \E T \in RandomSubset(1, {X \in Types : cnt >= 0 /\ (X \in {"Put", "Take", "Retire", "Cancel"} => \E m \in Msgs(X) : Apply(bs, m).ok \/ Covered(m))} \cup {"Mint"}) :
    LET ms   == Msgs(T)
        good == {m \in ms : Apply(bs, m).ok}
        near == {m \in ms : ~Apply(bs, m).ok /\ Covered(m)}
        k    == RandomElement(1..10)
        pick == IF near # {} /\ k <= 3 THEN near ELSE IF good # {} /\ k <= 9 THEN good ELSE ms
    IN \E m \in RandomSubset(1, pick) : Step(m)

\* ---- the properties on the specification
C01_Big == Big_C01_Conservation(bs) /\ Big_C01_NonNegative(bs)
C02_Big == Big_C02_Accounting(bs, issued)
C05_Big == Big_C05_Backed(bs)
C04_Big_Prop == [][Big_C04_Step(bs, bs')]_vars
C05_Big_Prop == [][Big_C05_Step(bs, bs', bev'.m, bev'.ok)]_vars
C11_Big_Prop == [][Big_C11_Step(bs, bs', bev'.m, bev'.ok)]_vars
\* a failed message changes nothing
FailFrame_Prop == [][~bev'.ok => bs' = bs]_vars
=============================================================================
