package main

// Query observer (C17): walks list queries page by page through the gRPC query
// router of the application and logs, per query instance, the concatenated
// items, the reported total and how the pages were requested.  The
// specification says what each query must return in the logged state.

import (
	"context"
	"fmt"
	"math/rand"
	"sort"
	"strings"
	"time"

	"github.com/cosmos/cosmos-sdk/baseapp"
	"github.com/cosmos/cosmos-sdk/types/query"
	gogotypes "github.com/cosmos/gogoproto/types"

	basetypes "github.com/regen-network/regen-ledger/x/ecocredit/v3/base/types/v1"
	baskettypes "github.com/regen-network/regen-ledger/x/ecocredit/v3/basket/types/v1"
	markettypes "github.com/regen-network/regen-ledger/x/ecocredit/v3/marketplace/types/v1"
)

// pageFn fetches one page and abstracts its items to strings.
type pageFn func(ctx context.Context, pr *query.PageRequest) (items []string, pg *query.PageResponse, err error)

type qinst struct {
	q, arg string
	fn     pageFn
}

type qresult struct {
	Q      string   `json:"q"`
	Arg    string   `json:"arg"`
	Mode   string   `json:"mode"` // "key" | "offset" | "nil" (no page request)
	Limit  int      `json:"limit"`
	Offset int      `json:"offset"`
	Items  []string `json:"items"`
	Attrs  []qattr  `json:"attrs"` // attributes reported for the returned elements (where abstracted)
	Total  int      `json:"total"` // -1 when not reported
	Pages  int      `json:"pages"`
	Err    bool     `json:"err"`
	ErrMsg string   `json:"errmsg"`
	Panic  bool     `json:"panic"`
}

type qattr struct {
	K string `json:"k"`
	V string `json:"v"`
}

// an element may be abstracted to "id\tattributes": split into the item and its attributes
func (res *qresult) take(items []string) {
	for _, it := range items {
		if i := strings.IndexByte(it, '\t'); i >= 0 {
			res.Items = append(res.Items, it[:i])
			res.Attrs = append(res.Attrs, qattr{K: it[:i], V: it[i+1:]})
		} else {
			res.Items = append(res.Items, it)
		}
	}
}

func walkPages(ctx context.Context, in qinst, mode string, limit int) (res qresult) {
	res = qresult{Q: in.q, Arg: in.arg, Mode: mode, Limit: limit, Items: []string{}, Attrs: []qattr{}, Total: -1}
	defer func() {
		if p := recover(); p != nil {
			res.Err, res.ErrMsg, res.Panic = true, fmt.Sprintf("panic: %v", p), true
		}
	}()
	if mode == "nil" {
		items, pg, err := in.fn(ctx, nil)
		if err != nil {
			res.Err, res.ErrMsg = true, firstLine(err.Error())
			return res
		}
		res.take(items)
		res.Pages = 1
		if pg != nil && len(pg.NextKey) != 0 {
			res.ErrMsg = "more than one default page"
		}
		return res
	}
	if mode == "offset0" {
		// an offset without a limit: the default page size applies from that offset on
		res.Offset = limit
		items, pg, err := in.fn(ctx, &query.PageRequest{Offset: uint64(limit), CountTotal: true})
		if err != nil {
			res.Err, res.ErrMsg = true, firstLine(err.Error())
			return res
		}
		res.take(items)
		res.Pages = 1
		if pg != nil {
			res.Total = int(pg.Total)
		}
		return res
	}
	var key []byte
	offset := uint64(0)
	for page := 0; page < 10000; page++ {
		pr := &query.PageRequest{Limit: uint64(limit), CountTotal: page == 0}
		switch mode {
		case "key":
			pr.Key = key
		case "keynolimit": // follow-up pages by key without a limit
			pr.Key = key
			if page > 0 {
				pr.Limit = 0
			}
		case "reverse":
			pr.Key = key
			pr.Reverse = true
		default:
			pr.Offset = offset
		}
		items, pg, err := in.fn(ctx, pr)
		if err != nil {
			res.Err, res.ErrMsg = true, firstLine(err.Error())
			return res
		}
		res.Pages++
		res.take(items)
		if page == 0 && pg != nil {
			res.Total = int(pg.Total)
		}
		if pg == nil || len(pg.NextKey) == 0 {
			break
		}
		key = pg.NextKey
		offset += uint64(limit)
	}
	return res
}

// queryInstances enumerates the list queries with arguments taken from the
// current state (present entities) plus absent ones.
func (r *runner) queryInstances(st *State) []qinst {
	conn := &baseapp.QueryServiceTestHelper{GRPCQueryRouter: r.app.ba.GRPCQueryRouter(), Ctx: r.app.Ctx()}
	bq := basetypes.NewQueryClient(conn)
	kq := baskettypes.NewQueryClient(conn)
	mq := markettypes.NewQueryClient(conn)
	var out []qinst
	add := func(q, arg string, fn pageFn) { out = append(out, qinst{q, arg, fn}) }

	tickOf := func(ts *gogotypes.Timestamp) string {
		if ts == nil {
			return "nil"
		}
		t, ok := TimeTick(time.Unix(ts.Seconds, int64(ts.Nanos)).UTC())
		if !ok {
			return "offlattice"
		}
		return fmt.Sprint(t)
	}
	batchItems := func(bs []*basetypes.BatchInfo) []string {
		var o []string
		for _, b := range bs {
			o = append(o, b.Denom+"\t"+strings.Join([]string{NameOfBech32(b.Issuer), b.ProjectId, b.Metadata, fmt.Sprint(b.Open), tickOf(b.StartDate), tickOf(b.EndDate)}, "|"))
		}
		return o
	}
	classItems := func(cs []*basetypes.ClassInfo) []string {
		var o []string
		for _, c := range cs {
			o = append(o, c.Id+"\t"+strings.Join([]string{NameOfBech32(c.Admin), c.Metadata, c.CreditTypeAbbrev}, "|"))
		}
		return o
	}
	projItems := func(ps []*basetypes.ProjectInfo) []string {
		var o []string
		for _, p := range ps {
			o = append(o, p.Id+"\t"+strings.Join([]string{NameOfBech32(p.Admin), p.ClassId, p.Jurisdiction, p.Metadata, p.ReferenceId}, "|"))
		}
		return o
	}
	balItems := func(bs []*basetypes.BatchBalanceInfo) []string {
		var o []string
		for _, b := range bs {
			o = append(o, NameOfBech32(b.Address)+"|"+b.BatchDenom)
		}
		return o
	}
	orderItems := func(os []*markettypes.SellOrderInfo) []string {
		var o []string
		for _, x := range os {
			exp := "none"
			if x.Expiration != nil {
				if t, ok := MarketTick(time.Unix(x.Expiration.Seconds, int64(x.Expiration.Nanos)).UTC()); ok {
					exp = fmt.Sprint(t)
				} else {
					exp = "offlattice"
				}
			}
			o = append(o, fmt.Sprint(x.Id)+"\t"+strings.Join([]string{NameOfBech32(x.Seller), x.BatchDenom, x.AskDenom, x.AskAmount, fmt.Sprint(x.DisableAutoRetire), exp}, "|"))
		}
		return o
	}

	accounts := []string{"a1", "a2", "a3", "a4", "gov"}
	classIDs := []string{"C09", "C1"}
	for _, c := range st.Classes {
		classIDs = append(classIDs, c["id"].(string))
	}
	projectIDs := []string{"C09-001"}
	refs := map[string]bool{"": true, "zz": true}
	for _, p := range st.Projects {
		projectIDs = append(projectIDs, p["id"].(string))
		refs[p["ref"].(string)] = true
	}
	denoms := []string{"C09-001-19700101-19710101-001"}
	for _, b := range st.Batches {
		denoms = append(denoms, b["denom"].(string))
	}
	basketDenoms := []string{"eco.uC.XXX"}
	for _, k := range st.Baskets {
		basketDenoms = append(basketDenoms, k["denom"].(string))
	}

	add("Classes", "", func(c context.Context, pr *query.PageRequest) ([]string, *query.PageResponse, error) {
		res, err := bq.Classes(c, &basetypes.QueryClassesRequest{Pagination: pr})
		if err != nil {
			return nil, nil, err
		}
		return classItems(res.Classes), res.Pagination, nil
	})
	add("Projects", "", func(c context.Context, pr *query.PageRequest) ([]string, *query.PageResponse, error) {
		res, err := bq.Projects(c, &basetypes.QueryProjectsRequest{Pagination: pr})
		if err != nil {
			return nil, nil, err
		}
		return projItems(res.Projects), res.Pagination, nil
	})
	add("Batches", "", func(c context.Context, pr *query.PageRequest) ([]string, *query.PageResponse, error) {
		res, err := bq.Batches(c, &basetypes.QueryBatchesRequest{Pagination: pr})
		if err != nil {
			return nil, nil, err
		}
		return batchItems(res.Batches), res.Pagination, nil
	})
	add("AllBalances", "", func(c context.Context, pr *query.PageRequest) ([]string, *query.PageResponse, error) {
		res, err := bq.AllBalances(c, &basetypes.QueryAllBalancesRequest{Pagination: pr})
		if err != nil {
			return nil, nil, err
		}
		return balItems(res.Balances), res.Pagination, nil
	})
	add("SellOrders", "", func(c context.Context, pr *query.PageRequest) ([]string, *query.PageResponse, error) {
		res, err := mq.SellOrders(c, &markettypes.QuerySellOrdersRequest{Pagination: pr})
		if err != nil {
			return nil, nil, err
		}
		return orderItems(res.SellOrders), res.Pagination, nil
	})
	add("Baskets", "", func(c context.Context, pr *query.PageRequest) ([]string, *query.PageResponse, error) {
		res, err := kq.Baskets(c, &baskettypes.QueryBasketsRequest{Pagination: pr})
		if err != nil {
			return nil, nil, err
		}
		var o []string
		for _, b := range res.BasketsInfo {
			crit := "none:0"
			if d := b.DateCriteria; d != nil {
				switch {
				case d.MinStartDate != nil:
					crit = "min:" + tickOf(d.MinStartDate)
				case d.StartDateWindow != nil:
					crit = "window:" + fmt.Sprint(int64(time.Duration(d.StartDateWindow.Seconds)*time.Second/tickDur))
				case d.YearsInThePast != 0:
					crit = "years:" + fmt.Sprint(d.YearsInThePast)
				}
			}
			o = append(o, b.BasketDenom+"\t"+strings.Join([]string{b.Name, b.CreditTypeAbbrev, fmt.Sprint(b.DisableAutoRetire), NameOfBech32(b.Curator), crit}, "|"))
		}
		return o, res.Pagination, nil
	})
	add("AllowedDenoms", "", func(c context.Context, pr *query.PageRequest) ([]string, *query.PageResponse, error) {
		res, err := mq.AllowedDenoms(c, &markettypes.QueryAllowedDenomsRequest{Pagination: pr})
		if err != nil {
			return nil, nil, err
		}
		var o []string
		for _, d := range res.AllowedDenoms {
			o = append(o, d.BankDenom)
		}
		return o, res.Pagination, nil
	})
	for _, a := range accounts {
		a := a
		add("ClassesByAdmin", a, func(c context.Context, pr *query.PageRequest) ([]string, *query.PageResponse, error) {
			res, err := bq.ClassesByAdmin(c, &basetypes.QueryClassesByAdminRequest{Admin: AddrStr(a), Pagination: pr})
			if err != nil {
				return nil, nil, err
			}
			return classItems(res.Classes), res.Pagination, nil
		})
		add("ProjectsByAdmin", a, func(c context.Context, pr *query.PageRequest) ([]string, *query.PageResponse, error) {
			res, err := bq.ProjectsByAdmin(c, &basetypes.QueryProjectsByAdminRequest{Admin: AddrStr(a), Pagination: pr})
			if err != nil {
				return nil, nil, err
			}
			return projItems(res.Projects), res.Pagination, nil
		})
		add("BatchesByIssuer", a, func(c context.Context, pr *query.PageRequest) ([]string, *query.PageResponse, error) {
			res, err := bq.BatchesByIssuer(c, &basetypes.QueryBatchesByIssuerRequest{Issuer: AddrStr(a), Pagination: pr})
			if err != nil {
				return nil, nil, err
			}
			return batchItems(res.Batches), res.Pagination, nil
		})
		add("Balances", a, func(c context.Context, pr *query.PageRequest) ([]string, *query.PageResponse, error) {
			res, err := bq.Balances(c, &basetypes.QueryBalancesRequest{Address: AddrStr(a), Pagination: pr})
			if err != nil {
				return nil, nil, err
			}
			return balItems(res.Balances), res.Pagination, nil
		})
		add("SellOrdersBySeller", a, func(c context.Context, pr *query.PageRequest) ([]string, *query.PageResponse, error) {
			res, err := mq.SellOrdersBySeller(c, &markettypes.QuerySellOrdersBySellerRequest{Seller: AddrStr(a), Pagination: pr})
			if err != nil {
				return nil, nil, err
			}
			return orderItems(res.SellOrders), res.Pagination, nil
		})
	}
	for _, id := range classIDs {
		id := id
		add("ProjectsByClass", id, func(c context.Context, pr *query.PageRequest) ([]string, *query.PageResponse, error) {
			res, err := bq.ProjectsByClass(c, &basetypes.QueryProjectsByClassRequest{ClassId: id, Pagination: pr})
			if err != nil {
				return nil, nil, err
			}
			return projItems(res.Projects), res.Pagination, nil
		})
		add("BatchesByClass", id, func(c context.Context, pr *query.PageRequest) ([]string, *query.PageResponse, error) {
			res, err := bq.BatchesByClass(c, &basetypes.QueryBatchesByClassRequest{ClassId: id, Pagination: pr})
			if err != nil {
				return nil, nil, err
			}
			return batchItems(res.Batches), res.Pagination, nil
		})
		add("ClassIssuers", id, func(c context.Context, pr *query.PageRequest) ([]string, *query.PageResponse, error) {
			res, err := bq.ClassIssuers(c, &basetypes.QueryClassIssuersRequest{ClassId: id, Pagination: pr})
			if err != nil {
				return nil, nil, err
			}
			var o []string
			for _, i := range res.Issuers {
				o = append(o, NameOfBech32(i))
			}
			return o, res.Pagination, nil
		})
	}
	for _, id := range projectIDs {
		id := id
		add("BatchesByProject", id, func(c context.Context, pr *query.PageRequest) ([]string, *query.PageResponse, error) {
			res, err := bq.BatchesByProject(c, &basetypes.QueryBatchesByProjectRequest{ProjectId: id, Pagination: pr})
			if err != nil {
				return nil, nil, err
			}
			return batchItems(res.Batches), res.Pagination, nil
		})
	}
	var refList []string
	for ref := range refs {
		refList = append(refList, ref)
	}
	sort.Strings(refList)
	for _, ref := range refList {
		ref := ref
		add("ProjectsByReferenceId", ref, func(c context.Context, pr *query.PageRequest) ([]string, *query.PageResponse, error) {
			res, err := bq.ProjectsByReferenceId(c, &basetypes.QueryProjectsByReferenceIdRequest{ReferenceId: ref, Pagination: pr})
			if err != nil {
				return nil, nil, err
			}
			return projItems(res.Projects), res.Pagination, nil
		})
	}
	for _, d := range denoms {
		d := d
		add("BalancesByBatch", d, func(c context.Context, pr *query.PageRequest) ([]string, *query.PageResponse, error) {
			res, err := bq.BalancesByBatch(c, &basetypes.QueryBalancesByBatchRequest{BatchDenom: d, Pagination: pr})
			if err != nil {
				return nil, nil, err
			}
			return balItems(res.Balances), res.Pagination, nil
		})
		add("SellOrdersByBatch", d, func(c context.Context, pr *query.PageRequest) ([]string, *query.PageResponse, error) {
			res, err := mq.SellOrdersByBatch(c, &markettypes.QuerySellOrdersByBatchRequest{BatchDenom: d, Pagination: pr})
			if err != nil {
				return nil, nil, err
			}
			return orderItems(res.SellOrders), res.Pagination, nil
		})
	}
	for _, d := range basketDenoms {
		d := d
		add("BasketBalances", d, func(c context.Context, pr *query.PageRequest) ([]string, *query.PageResponse, error) {
			res, err := kq.BasketBalances(c, &baskettypes.QueryBasketBalancesRequest{BasketDenom: d, Pagination: pr})
			if err != nil {
				return nil, nil, err
			}
			var o []string
			for _, b := range res.BalancesInfo {
				o = append(o, b.BatchDenom)
			}
			return o, res.Pagination, nil
		})
	}
	return out
}

// singles: single-entity queries, abstracted to the stored values
func (r *runner) singleQueries(st *State, rng *rand.Rand) []any {
	conn := &baseapp.QueryServiceTestHelper{GRPCQueryRouter: r.app.ba.GRPCQueryRouter(), Ctx: r.app.Ctx()}
	bq := basetypes.NewQueryClient(conn)
	kq := baskettypes.NewQueryClient(conn)
	mq := markettypes.NewQueryClient(conn)
	ctx := context.Background()
	out := []any{}
	keyToDenom := map[uint64]string{}
	for _, b := range st.Batches {
		keyToDenom[b["key"].(uint64)] = b["denom"].(string)
	}
	for _, b := range st.Bal {
		if rng.Intn(3) != 0 {
			continue
		}
		d, ok := keyToDenom[b["bk"].(uint64)]
		if !ok {
			continue
		}
		a := b["a"].(string)
		res, err := bq.Balance(ctx, &basetypes.QueryBalanceRequest{Address: AddrStr(a), BatchDenom: d})
		if err != nil {
			out = append(out, M{"q": "Balance", "a": a, "bk": b["bk"], "err": true, "t": CreditAmt("0"), "r": CreditAmt("0"), "e": CreditAmt("0")})
			continue
		}
		out = append(out, M{"q": "Balance", "a": a, "bk": b["bk"], "err": false, "t": CreditAmt(res.Balance.TradableAmount),
			"r": CreditAmt(res.Balance.RetiredAmount), "e": CreditAmt(res.Balance.EscrowedAmount)})
	}
	for _, s := range st.Supply {
		d, ok := keyToDenom[s["bk"].(uint64)]
		if !ok {
			continue
		}
		res, err := bq.Supply(ctx, &basetypes.QuerySupplyRequest{BatchDenom: d})
		if err != nil {
			out = append(out, M{"q": "Supply", "bk": s["bk"], "err": true, "t": CreditAmt("0"), "r": CreditAmt("0"), "c": CreditAmt("0")})
			continue
		}
		out = append(out, M{"q": "Supply", "bk": s["bk"], "err": false, "t": CreditAmt(res.TradableAmount), "r": CreditAmt(res.RetiredAmount), "c": CreditAmt(res.CancelledAmount)})
	}
	for _, b := range st.Batches {
		res, err := bq.Batch(ctx, &basetypes.QueryBatchRequest{BatchDenom: b["denom"].(string)})
		if err != nil {
			out = append(out, M{"q": "Batch", "denom": b["denom"], "err": true, "issuer": "", "open": false, "project_id": ""})
			continue
		}
		out = append(out, M{"q": "Batch", "denom": b["denom"], "err": false, "issuer": NameOfBech32(res.Batch.Issuer), "open": res.Batch.Open,
			"project_id": res.Batch.ProjectId})
	}
	for _, o := range st.Orders {
		res, err := mq.SellOrder(ctx, &markettypes.QuerySellOrderRequest{SellOrderId: o["id"].(uint64)})
		if err != nil {
			out = append(out, M{"q": "SellOrder", "id": o["id"], "err": true, "seller": "", "qty": CreditAmt("0"), "ask": int64(0), "ask_denom": "", "denom": ""})
			continue
		}
		ask := int64(0)
		fmt.Sscan(res.SellOrder.AskAmount, &ask)
		out = append(out, M{"q": "SellOrder", "id": o["id"], "err": false, "seller": NameOfBech32(res.SellOrder.Seller), "qty": CreditAmt(res.SellOrder.Quantity),
			"ask": ask, "ask_denom": res.SellOrder.AskDenom, "denom": res.SellOrder.BatchDenom})
	}
	for _, bb := range st.Bbal {
		var bd string
		for _, k := range st.Baskets {
			if k["id"] == bb["bid"] {
				bd = k["denom"].(string)
			}
		}
		if bd == "" {
			continue
		}
		res, err := kq.BasketBalance(ctx, &baskettypes.QueryBasketBalanceRequest{BasketDenom: bd, BatchDenom: bb["denom"].(string)})
		if err != nil {
			out = append(out, M{"q": "BasketBalance", "bid": bb["bid"], "denom": bb["denom"], "err": true, "amt": CreditAmt("0")})
			continue
		}
		out = append(out, M{"q": "BasketBalance", "bid": bb["bid"], "denom": bb["denom"], "err": false, "amt": CreditAmt(res.Balance)})
	}
	for _, c := range st.Classes {
		res, err := bq.Class(ctx, &basetypes.QueryClassRequest{ClassId: c["id"].(string)})
		if err != nil {
			out = append(out, M{"q": "Class", "id": c["id"], "err": true, "admin": "", "ct": ""})
			continue
		}
		out = append(out, M{"q": "Class", "id": c["id"], "err": false, "admin": NameOfBech32(res.Class.Admin), "ct": res.Class.CreditTypeAbbrev})
	}
	// parameter-style queries
	coinStr := func(denom string, amt fmt.Stringer, nilAmt bool) string {
		if denom == "" || nilAmt {
			return "none"
		}
		return denom + ":" + amt.String()
	}
	if res, err := bq.ClassFee(ctx, &basetypes.QueryClassFeeRequest{}); err != nil {
		out = append(out, M{"q": "Param", "name": "ClassFee", "err": true, "v": "", "items": []string{}})
	} else {
		v := "none"
		if res.Fee != nil {
			v = coinStr(res.Fee.Denom, res.Fee.Amount, res.Fee.Amount.IsNil())
		}
		out = append(out, M{"q": "Param", "name": "ClassFee", "err": false, "v": v, "items": []string{}})
	}
	if res, err := kq.BasketFee(ctx, &baskettypes.QueryBasketFeeRequest{}); err != nil {
		out = append(out, M{"q": "Param", "name": "BasketFee", "err": true, "v": "", "items": []string{}})
	} else {
		v := "none"
		if res.Fee != nil {
			v = coinStr(res.Fee.Denom, res.Fee.Amount, res.Fee.Amount.IsNil())
		}
		out = append(out, M{"q": "Param", "name": "BasketFee", "err": false, "v": v, "items": []string{}})
	}
	if res, err := bq.ClassCreatorAllowlist(ctx, &basetypes.QueryClassCreatorAllowlistRequest{}); err != nil {
		out = append(out, M{"q": "Param", "name": "Allowlist", "err": true, "v": "", "items": []string{}})
	} else {
		out = append(out, M{"q": "Param", "name": "Allowlist", "err": false, "v": fmt.Sprint(res.Enabled), "items": []string{}})
	}
	if res, err := bq.AllowedBridgeChains(ctx, &basetypes.QueryAllowedBridgeChainsRequest{}); err != nil {
		out = append(out, M{"q": "Param", "name": "BridgeChains", "err": true, "v": "", "items": []string{}})
	} else {
		items := append([]string{}, res.AllowedBridgeChains...)
		out = append(out, M{"q": "Param", "name": "BridgeChains", "err": false, "v": "", "items": items})
	}
	if res, err := bq.AllowedClassCreators(ctx, &basetypes.QueryAllowedClassCreatorsRequest{}); err != nil {
		out = append(out, M{"q": "Param", "name": "Creators", "err": true, "v": "", "items": []string{}})
	} else {
		items := []string{}
		for _, a := range res.ClassCreators {
			items = append(items, NameOfBech32(a))
		}
		out = append(out, M{"q": "Param", "name": "Creators", "err": false, "v": "", "items": items})
	}
	if res, err := bq.CreditTypes(ctx, &basetypes.QueryCreditTypesRequest{}); err != nil {
		out = append(out, M{"q": "Param", "name": "CreditTypes", "err": true, "v": "", "items": []string{}})
	} else {
		items := []string{}
		for _, t := range res.CreditTypes {
			items = append(items, strings.Join([]string{t.Abbreviation, t.Name, t.Unit, fmt.Sprint(t.Precision)}, "|"))
		}
		out = append(out, M{"q": "Param", "name": "CreditTypes", "err": false, "v": "", "items": items})
	}
	for _, k := range st.Baskets {
		res, err := kq.Basket(ctx, &baskettypes.QueryBasketRequest{BasketDenom: k["denom"].(string)})
		if err != nil || res.BasketInfo == nil {
			out = append(out, M{"q": "Basket", "denom": k["denom"], "err": true, "v": "", "items": []string{}})
			continue
		}
		b := res.BasketInfo
		crit := "none:0"
		if d := b.DateCriteria; d != nil {
			switch {
			case d.MinStartDate != nil:
				if t, ok := TimeTick(time.Unix(d.MinStartDate.Seconds, int64(d.MinStartDate.Nanos)).UTC()); ok {
					crit = "min:" + fmt.Sprint(t)
				} else {
					crit = "min:offlattice"
				}
			case d.StartDateWindow != nil:
				crit = "window:" + fmt.Sprint(int64(time.Duration(d.StartDateWindow.Seconds)*time.Second/tickDur))
			case d.YearsInThePast != 0:
				crit = "years:" + fmt.Sprint(d.YearsInThePast)
			}
		}
		out = append(out, M{"q": "Basket", "denom": k["denom"], "err": false,
			"v":     strings.Join([]string{b.Name, b.CreditTypeAbbrev, fmt.Sprint(b.DisableAutoRetire), NameOfBech32(b.Curator), crit}, "|"),
			"items": append([]string{}, res.Classes...)})
	}
	for _, p := range st.Projects {
		res, err := bq.Project(ctx, &basetypes.QueryProjectRequest{ProjectId: p["id"].(string)})
		if err != nil {
			out = append(out, M{"q": "Project", "id": p["id"], "err": true, "admin": "", "class_id": "", "ref": ""})
			continue
		}
		out = append(out, M{"q": "Project", "id": p["id"], "err": false, "admin": NameOfBech32(res.Project.Admin), "class_id": res.Project.ClassId, "ref": res.Project.ReferenceId})
	}
	return out
}

// queries runs `budget` randomly chosen list-query walks and the single-entity
// queries, and logs the results under ob.
func (r *runner) queries(ob M, budget int, st *State) {
	rng := rand.New(rand.NewSource(r.b.Seed*131 + int64(len(r.lines))))
	insts := r.queryInstances(st)
	ctx := context.Background()
	results := []any{}
	limits := []int{1, 2, 3, 5, 100}
	for k := 0; k < budget && len(insts) > 0; k++ {
		in := insts[rng.Intn(len(insts))]
		mode := []string{"key", "offset", "key", "offset", "nil", "offset0", "keynolimit", "reverse"}[rng.Intn(8)]
		res := walkPages(ctx, in, mode, limits[rng.Intn(len(limits))])
		if res.ErrMsg != "" && !res.Err {
			res.ErrMsg = strings.TrimSpace(res.ErrMsg)
		}
		results = append(results, res)
	}
	ob["lists"] = results
	ob["singles"] = r.singleQueries(st, rng)
}
