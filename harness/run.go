package main

// The runner: executes behaviours (abstract genesis + abstract steps) on the real
// application and writes the implementation trace, one JSON line per step with
// the event, the projected state and the observations.  It decides nothing.

import (
	"bufio"
	"encoding/json"
	"flag"
	"fmt"
	"math/big"
	"math/rand"
	"os"
	"strings"
	"time"

	dbm "github.com/cometbft/cometbft-db"
	abci "github.com/cometbft/cometbft/abci/types"
	codectypes "github.com/cosmos/cosmos-sdk/codec/types"
	sdk "github.com/cosmos/cosmos-sdk/types"
	txtypes "github.com/cosmos/cosmos-sdk/types/tx"
	gogoproto "github.com/cosmos/gogoproto/proto"

	gogotypes "github.com/cosmos/gogoproto/types"
	datatypes "github.com/regen-network/regen-ledger/x/data/v3"
	basetypes "github.com/regen-network/regen-ledger/x/ecocredit/v3/base/types/v1"
	baskettypes "github.com/regen-network/regen-ledger/x/ecocredit/v3/basket/types/v1"
	markettypes "github.com/regen-network/regen-ledger/x/ecocredit/v3/marketplace/types/v1"
)

func sdkInt(n int64) sdk.Int { return sdk.NewInt(n) }

func timeDuration(n int64) time.Duration { return time.Duration(n) }

// Line is one record of the implementation trace.
type Line struct {
	K  string        `json:"k"`
	ID string        `json:"id,omitempty"`
	Ev M             `json:"ev,omitempty"`
	St *State        `json:"st,omitempty"`
	Ds *DataState    `json:"ds,omitempty"`
	Xs *IntertxState `json:"xs,omitempty"`
	Ob M             `json:"ob,omitempty"`
}

// Behaviour is the input: where to start and what to do.
type Behaviour struct {
	ID           string          `json:"id"`
	Unit         string          `json:"unit"`   // micro-credits per abstract unit
	Render       int             `json:"render"` // decimal rendering profile
	Seed         int64           `json:"seed"`
	Family       string          `json:"family"`  // "eco" (default) | "data"
	Genesis      json.RawMessage `json:"genesis"` // abstract state, or "default"
	Weak         *WeakHash       `json:"weak,omitempty"`
	Steps        []M             `json:"steps"`
	Driver       int             `json:"driver"`        // number of code-led driver steps appended to Steps
	ReplicaEnd   int             `json:"replica_end"`   // driver behaviours: a Replica(n) observation after the last driver step
	ProbeAfter   bool            `json:"probe_after"`   // run ProbeMsgs after Steps (data family: a state is reached by replaying a path)
	SkipValidate bool            `json:"skip_validate"` // edge cover: import a reachable state even if the genesis validators reject it
	Fine         bool            `json:"fine"`          // market time domain with a sub-second part (names.go, fineSeed)
	ExportEvery  int             `json:"export_every"`  // driver behaviours: an ExportImport observation after every k-th driver step
	Probes       int             `json:"probes"`
	ProbeMsgs    []M             `json:"probe_msgs"` // edge cover: these messages are tried on throw-away branches of the genesis state // after every step: this many driver messages tried on throw-away branches of the state

	weakResolved bool
}

type runner struct {
	b     *Behaviour
	app   *App
	db    dbm.DB
	prof  *Profile
	lines []*Line
	fatal string

	// what a replica must reproduce: one entry per block (app hash) and per message (result digest)
	digests []string
	// replica mode: no projection, no trace; restarts at the block steps listed in restartAt (nil = as the behaviour says)
	replica    bool
	restartAt  map[int]bool
	blockSteps int
	lastData   *DataState
	lastX      *IntertxState
	skipped    string
	pdrv       *driver
	drvMsgs    []M // messages produced by the code-led driver (replicas re-execute them)
}

func noneResp() M { return M{"none": true} }

func obsOf(notes *Notes) M {
	o := M{"malformed": notes.Malformed, "offlattice": notes.OffLattice, "extra": notes.Extra, "overflow": notes.Overflow}
	if notes.IDCheck != nil {
		o["idcheck"] = notes.IDCheck
	}
	return o
}

func (r *runner) observe(ob M) *State {
	if r.replica {
		return nil
	}
	ctx := r.app.Ctx()
	if r.b.Family == "intertx" {
		r.lastX = r.app.ProjectIntertx(ctx)
		for k, v := range obsOf(&Notes{Malformed: []string{}, OffLattice: []string{}, Extra: []string{}, Overflow: []string{}}) {
			ob[k] = v
		}
		return nil
	}
	if r.b.Family == "data" {
		ds, notes := r.app.ProjectData(ctx)
		for k, v := range obsOf(notes) {
			ob[k] = v
		}
		r.lastData = ds
		return nil
	}
	st, notes := r.app.ProjectEco(ctx)
	for k, v := range obsOf(notes) {
		ob[k] = v
	}
	inv := r.app.RunInvariants(ctx)
	ob["inv_batch_supply"] = inv["batch-supply"]
	ob["inv_basket_supply"] = inv["basket-supply"]
	return st
}

func (r *runner) run() {
	b := r.b
	fineSeed = 0
	if b.Fine && b.Family != "data" && b.Family != "intertx" {
		fineSeed = 2*b.Seed + 1
	}
	rateDecimals = 6
	if b.Render == 1 {
		rateDecimals = 30
	}
	if b.Unit == "" {
		b.Unit = "1000000"
	}
	r.prof = NewProfile(b.Unit, b.Render, b.Seed)
	if b.Weak != nil && !b.weakResolved {
		// the behaviour names content hashes; the hasher sees their real IRIs
		nt := map[string][]int{}
		for k, v := range b.Weak.Table {
			nt[poolIRI(k)] = v
		}
		b.Weak.Table = nt
		b.weakResolved = true
	}
	r.db = dbm.NewMemDB()
	r.app = NewApp(r.db, b.Weak)

	var gi *GenesisInput
	var gs string
	if json.Unmarshal(b.Genesis, &gs) == nil {
		gi = &GenesisInput{Ecocredit: r.app.DefaultEcoGenesis(), Data: r.app.DefaultDataGenesis(), Time: MarketTime(6)}
	} else {
		var st M
		must(json.Unmarshal(b.Genesis, &st))
		gi = r.prof.GenesisFromState(r.app, st)
	}
	// the properties speak about histories from a VALID genesis.  The edge cover imports
	// REACHABLE states as genesis; a reachable state that the validators reject (the recorded
	// finding batch_start_eq_end) is still a state whose transitions must be covered, so those
	// behaviours ask for the import without the validation (InitGenesis itself does not validate).
	if !b.SkipValidate {
		if err := r.app.eco.ValidateGenesis(r.app.cdc, nil, gi.Ecocredit); err != nil {
			r.fatal = "genesis rejected by the module's own validation: " + err.Error()
			return
		}
	}
	if err := r.app.InitChain(gi); err != nil {
		r.fatal = err.Error()
		return
	}
	_, p := r.app.BeginBlock(gi.Time)
	if r.replica {
		// the behaviour's steps, then the messages the primary's code-led driver produced
		for _, m := range append(append([]M{}, b.Steps...), r.drvMsgs...) {
			r.step(cloneM(m))
			if r.fatal != "" {
				return
			}
		}
		if h := r.app.CloseBlock(); h != "" {
			r.digests = append(r.digests, "block:"+h)
		}
		return
	}
	ob := M{"panicked": p != "", "panic": p}
	st := r.observe(ob)
	r.lines = append(r.lines, &Line{K: "init", ID: b.ID, St: st, Ds: r.lastData, Xs: r.lastX, Ob: ob,
		Ev: M{"type": "Init", "m": M{"type": "Init"}, "ok": true, "resp": noneResp(), "signers": []string{}, "dom": "spec"}})

	if !b.ProbeAfter {
		for _, m := range b.ProbeMsgs {
			r.probeOne(cloneM(m), "spec")
			if r.fatal != "" {
				return
			}
		}
	}
	for _, m := range b.Steps {
		r.step(cloneM(m)) // the concretiser rewrites amount leaves; keep the behaviour pristine for replicas
		if r.fatal != "" {
			return
		}
	}
	if b.ProbeAfter {
		for _, m := range b.ProbeMsgs {
			r.probeOne(cloneM(m), "spec")
			if r.fatal != "" {
				return
			}
		}
	}
	if b.Driver > 0 && b.Family != "data" && b.Family != "intertx" {
		d := &driver{rng: rand.New(rand.NewSource(b.Seed*7 + 13))}
		for i := 0; i < b.Driver; i++ {
			var last *State
			for j := len(r.lines) - 1; j >= 0 && last == nil; j-- {
				if r.lines[j].K != "probe" {
					last = r.lines[j].St
				}
			}
			if last == nil {
				break
			}
			dm := d.next(last)
			r.drvMsgs = append(r.drvMsgs, cloneM(dm))
			r.step(cloneM(dm))
			if r.fatal != "" {
				return
			}
			if b.ExportEvery > 0 && (i+1)%b.ExportEvery == 0 {
				r.step(M{"type": "ExportImport"})
				if r.fatal != "" {
					return
				}
			}
		}
		if b.ReplicaEnd > 0 && !r.replica {
			r.step(cloneM(M{"type": "Replica", "n": b.ReplicaEnd}))
		}
	}
}

func cloneM(m M) M {
	bz, err := json.Marshal(m)
	must(err)
	var out M
	must(json.Unmarshal(bz, &out))
	return out
}

func (r *runner) step(m M) {
	typ := str(m, "type")
	dom := "spec"
	if d, ok := m["dom"].(string); ok {
		dom = d
		delete(m, "dom")
	}
	ob := M{}
	ev := M{"type": typ, "m": m, "dom": dom, "resp": noneResp(), "signers": []string{}}
	switch typ {
	case "BeginBlock":
		restart := false
		if v, ok := m["restart"].(bool); ok {
			restart = v
		}
		if r.restartAt != nil {
			restart = r.restartAt[r.blockSteps]
		}
		r.blockSteps++
		if restart && r.app.height > 0 {
			// tear the application objects down at the block boundary and rebuild them over the same database
			closed := r.app.CloseBlock()
			na := NewApp(r.db, r.b.Weak)
			na.header, na.blockTime = r.app.header, r.app.blockTime
			r.app = na
			if closed != "" {
				r.digests = append(r.digests, "block:"+closed)
			}
		}
		bt := MarketTime(int(num(m, "t")))
		if r.b.Family == "intertx" {
			// real block times have a sub-second part; the packet timeout is relative to the exact block time
			bt = bt.Add(time.Duration((r.b.Seed*7919+int64(num(m, "t"))*104729)%1000000000) * time.Nanosecond)
		}
		hash, p := r.app.BeginBlock(bt)
		if hash != "" {
			r.digests = append(r.digests, "block:"+hash)
		}
		ob["panicked"] = p != ""
		ob["panic"] = p
		ob["closed_apphash"] = hash
		ev["ok"] = p == ""
		ev["signers"] = []string{"none"}
	case "SetChannel":
		ev["ok"] = true
		ev["signers"] = []string{"none"}
		r.app.itx.setChannel(str(m, "owner"), str(m, "conn"), boolean(m, "active"), boolean(m, "cap"))
	case "ExportImport":
		ev["ok"] = true
		ev["signers"] = []string{"none"}
		if !r.replica {
			r.exportImport(ob)
		}
	case "Query":
		ev["ok"] = true
		ev["signers"] = []string{"none"}
	case "Replica":
		ev["ok"] = true
		ev["signers"] = []string{"none"}
		if !r.replica {
			r.replicas(ob, int(num(m, "n")))
		}
	default:
		msg, err := r.prof.Concretise(m)
		if err != nil {
			r.fatal = err.Error()
			return
		}
		signers := []string{}
		for _, s := range msg.GetSigners() {
			signers = append(signers, Name(s))
		}
		ev["signers"] = signers
		before := r.app.KVDigest()
		res := r.app.Deliver(msg)
		r.digests = append(r.digests, "tx:"+res.Digest)
		after := r.app.KVDigest()
		ev["ok"] = res.Code == 0
		ob["code"] = res.Code
		ob["codespace"] = res.Codespace
		ob["panicked"] = res.Codespace == "undefined" && res.Code == 111222 || strings.Contains(res.Log, "recovered:")
		ob["kv_before"] = before
		ob["kv_after"] = after
		ob["gas"] = res.GasUsed
		ob["digest"] = res.Digest
		if res.Code != 0 {
			ob["log"] = firstLine(res.Log)
		} else {
			ev["resp"] = r.respOf(typ, res)
		}
	}
	if r.replica {
		return
	}
	st := r.observe(ob)
	if typ == "Query" && st != nil {
		r.queries(ob, int(num(m, "n")), st)
	}
	if typ == "Query" && r.b.Family == "data" && r.lastData != nil {
		r.dataQueries(ob, int(num(m, "n")), r.lastData)
	}
	r.lines = append(r.lines, &Line{K: "step", Ev: ev, St: st, Ds: r.lastData, Xs: r.lastX, Ob: ob})
	if r.b.Probes > 0 && st != nil && typ != "ExportImport" && typ != "Replica" && typ != "Query" {
		r.probes(st)
	}
}

// probes tries driver messages on throw-away branches of the current state: each
// is logged as a "probe" line (the state the message WOULD produce) followed by a
// "restore" line (the unchanged main state).  The handler is reached through the
// message router on a cache context: ValidateBasic and panic recovery are done
// here as runTx does them.
func (r *runner) probes(st *State) {
	if r.pdrv == nil {
		r.pdrv = &driver{rng: rand.New(rand.NewSource(r.b.Seed*31 + 5))}
	}
	for j := 0; j < r.b.Probes; j++ {
		m := cloneM(r.pdrv.next(st))
		if str(m, "type") == "BeginBlock" {
			continue
		}
		delete(m, "dom")
		r.probeOne(m, "driver")
		if r.fatal != "" {
			return
		}
	}
}

// probeBlock runs the module's begin-block hook at block time t on a throw-away branch.
func (r *runner) probeBlock(m M, dom string) {
	t := MarketTime(int(num(m, "t")))
	ctx := r.app.Ctx()
	cctx, _ := ctx.CacheContext()
	hdr := r.app.header
	hdr.Time = t
	cctx = cctx.WithBlockHeader(hdr)
	panicked := ""
	func() {
		defer func() {
			if p := recover(); p != nil {
				panicked = fmt.Sprint(p)
			}
		}()
		r.app.eco.BeginBlock(cctx, abci.RequestBeginBlock{Header: hdr})
	}()
	ev := M{"type": "BeginBlock", "m": m, "dom": dom, "resp": noneResp(), "signers": []string{"none"}, "ok": panicked == ""}
	ob := M{"panicked": panicked != "", "panic": panicked, "probe": true, "inv_batch_supply": "", "inv_basket_supply": ""}
	pst, notes := r.app.ProjectEco(cctx)
	for k, v := range obsOf(notes) {
		ob[k] = v
	}
	r.lines = append(r.lines, &Line{K: "probe", Ev: ev, St: pst, Ob: ob})
	rst, rnotes := r.app.ProjectEco(ctx)
	rob := obsOf(rnotes)
	rob["inv_batch_supply"], rob["inv_basket_supply"], rob["panicked"] = "", "", false
	r.lines = append(r.lines, &Line{K: "restore", St: rst, Ob: rob,
		Ev: M{"type": "Restore", "m": M{"type": "Restore"}, "ok": true, "resp": noneResp(), "signers": []string{}, "dom": "spec"}})
}

// probeOne tries one abstract message on a throw-away branch of the current state.
// probeData: the data family's probe.  The line after it is an "init" line carrying the
// unchanged main state (TraceData treats init lines as resets).
func (r *runner) probeData(m M, dom string) {
	typ := str(m, "type")
	ev := M{"type": typ, "m": m, "dom": dom, "resp": noneResp(), "signers": []string{}, "ok": false}
	ob := M{"panicked": false, "probe": true, "kv_before": "", "kv_after": ""}
	ctx := r.app.Ctx()
	var pds *DataState
	if typ == "BeginBlock" {
		// block time only moves forward on the main chain; on a branch the header time is set
		cctx, _ := ctx.CacheContext()
		cctx = cctx.WithBlockTime(TickTime(int(num(m, "t"))))
		ev["ok"], ev["signers"] = true, []string{"none"}
		ds, notes := r.app.ProjectData(cctx)
		for k, v := range obsOf(notes) {
			ob[k] = v
		}
		pds = ds
	} else {
		msg, err := r.prof.Concretise(m)
		if err != nil {
			r.fatal = err.Error()
			return
		}
		signers := []string{}
		for _, s := range msg.GetSigners() {
			signers = append(signers, Name(s))
		}
		ev["signers"] = signers
		cctx, _ := ctx.CacheContext()
		var res *sdk.Result
		func() {
			defer func() {
				if p := recover(); p != nil {
					err = fmt.Errorf("recovered: %v", p)
					ob["panicked"] = true
				}
			}()
			if err = msg.ValidateBasic(); err != nil {
				return
			}
			h := r.app.ba.MsgServiceRouter().Handler(msg)
			if h == nil {
				err = fmt.Errorf("no handler")
				return
			}
			res, err = h(cctx, msg)
		}()
		use := ctx
		if err == nil && res != nil {
			ev["ok"] = true
			if len(res.MsgResponses) == 1 {
				ev["resp"] = r.respOfAny(res.MsgResponses[0], res.Events)
			}
			use = cctx
		} else {
			ob["log"] = firstLine(fmt.Sprint(err))
		}
		ds, notes := r.app.ProjectData(use)
		for k, v := range obsOf(notes) {
			ob[k] = v
		}
		pds = ds
	}
	r.lines = append(r.lines, &Line{K: "step", Ev: ev, Ds: pds, Ob: ob})
	mds, mnotes := r.app.ProjectData(ctx)
	rob := obsOf(mnotes)
	rob["panicked"], rob["panic"] = false, ""
	r.lines = append(r.lines, &Line{K: "init", ID: r.b.ID, Ds: mds, Ob: rob,
		Ev: M{"type": "Init", "m": M{"type": "Init"}, "ok": true, "resp": noneResp(), "signers": []string{}, "dom": "spec"}})
}

func (r *runner) probeOne(m M, dom string) {
	if r.b.Family == "data" {
		r.probeData(m, dom)
		return
	}
	{
		typ := str(m, "type")
		if typ == "BeginBlock" {
			r.probeBlock(m, dom)
			return
		}
		msg, err := r.prof.Concretise(m)
		if err != nil {
			r.fatal = err.Error()
			return
		}
		signers := []string{}
		for _, s := range msg.GetSigners() {
			signers = append(signers, Name(s))
		}
		ev := M{"type": typ, "m": m, "dom": dom, "resp": noneResp(), "signers": signers, "ok": false}
		ob := M{"panicked": false, "probe": true}
		ctx := r.app.Ctx()
		cctx, _ := ctx.CacheContext()
		var res *sdk.Result
		func() {
			defer func() {
				if p := recover(); p != nil {
					err = fmt.Errorf("recovered: %v", p)
					ob["panicked"] = true
				}
			}()
			if err = msg.ValidateBasic(); err != nil {
				return
			}
			h := r.app.ba.MsgServiceRouter().Handler(msg)
			if h == nil {
				err = fmt.Errorf("no handler")
				return
			}
			res, err = h(cctx, msg)
		}()
		var pst *State
		var notes *Notes
		if err == nil && res != nil {
			ev["ok"] = true
			if len(res.MsgResponses) == 1 {
				ev["resp"] = r.respOfAny(res.MsgResponses[0], res.Events)
			}
			pst, notes = r.app.ProjectEco(cctx)
		} else {
			ob["log"] = firstLine(fmt.Sprint(err))
			pst, notes = r.app.ProjectEco(ctx)
		}
		for k, v := range obsOf(notes) {
			ob[k] = v
		}
		ob["inv_batch_supply"], ob["inv_basket_supply"] = "", ""
		r.lines = append(r.lines, &Line{K: "probe", Ev: ev, St: pst, Ob: ob})
		// back to the main state
		rst, rnotes := r.app.ProjectEco(ctx)
		rob := obsOf(rnotes)
		rob["inv_batch_supply"], rob["inv_basket_supply"], rob["panicked"] = "", "", false
		r.lines = append(r.lines, &Line{K: "restore", St: rst, Ob: rob,
			Ev: M{"type": "Restore", "m": M{"type": "Restore"}, "ok": true, "resp": noneResp(), "signers": []string{}, "dom": "spec"}})
	}
}

func firstLine(s string) string {
	if i := strings.IndexByte(s, '\n'); i >= 0 {
		s = s[:i]
	}
	if len(s) > 200 {
		s = s[:200]
	}
	return s
}

// respOf abstracts the typed response (and, for Bridge, the emitted events).
func (r *runner) respOf(typ string, res DeliverResult) M {
	var data sdk.TxMsgData
	if err := gogoproto.Unmarshal(res.Data, &data); err != nil || len(data.MsgResponses) != 1 {
		return M{"undecodable": true}
	}
	return r.respOfAny(data.MsgResponses[0], res.Events)
}

func (r *runner) respOfAny(packed *codectypes.Any, events []abci.Event) M {
	res := DeliverResult{Events: events}
	var resp txtypes.MsgResponse
	if err := r.app.reg.UnpackAny(packed, &resp); err != nil {
		return M{"undecodable": true}
	}
	switch v := resp.(type) {
	case *basetypes.MsgCreateClassResponse:
		return M{"class_id": v.ClassId}
	case *basetypes.MsgCreateProjectResponse:
		return M{"project_id": v.ProjectId}
	case *basetypes.MsgCreateBatchResponse:
		return M{"batch_denom": v.BatchDenom}
	case *basetypes.MsgBridgeReceiveResponse:
		return M{"batch_denom": v.BatchDenom, "project_id": v.ProjectId}
	case *basetypes.MsgBridgeResponse:
		cs := []string{}
		for _, e := range res.Events {
			if e.Type == "regen.ecocredit.v1.EventBridge" {
				for _, at := range e.Attributes {
					if at.Key == "contract" {
						cs = append(cs, abstractContract(strings.Trim(at.Value, `"`)))
					}
				}
			}
		}
		return M{"contracts": cs}
	case *baskettypes.MsgCreateResponse:
		return M{"basket_denom": v.BasketDenom}
	case *baskettypes.MsgPutResponse:
		i, ok := sdk.NewIntFromString(v.AmountReceived)
		if !ok {
			return M{"undecodable": true}
		}
		return M{"amount_received": TokenAmt(i)}
	case *baskettypes.MsgTakeResponse:
		cs := []any{}
		for _, c := range v.Credits {
			cs = append(cs, M{"denom": c.BatchDenom, "amt": CreditAmt(c.Amount)})
		}
		return M{"credits": cs}
	case *datatypes.MsgAnchorResponse:
		t := -999
		if v.Timestamp != nil {
			if tm, err := gogotypes.TimestampFromProto(v.Timestamp); err == nil {
				t, _ = TimeTick(tm)
			}
		}
		return M{"iri": abstractIRI(v.Iri), "t": t}
	case *datatypes.MsgAttestResponse:
		t := -999
		if v.Timestamp != nil {
			if tm, err := gogotypes.TimestampFromProto(v.Timestamp); err == nil {
				t, _ = TimeTick(tm)
			}
		}
		iris := []string{}
		for _, i := range v.Iris {
			iris = append(iris, abstractIRI(i))
		}
		return M{"iris": iris, "t": t}
	case *datatypes.MsgDefineResolverResponse:
		return M{"resolver_id": v.ResolverId}
	case *markettypes.MsgSellResponse:
		ids := []uint64{}
		ids = append(ids, v.SellOrderIds...)
		return M{"sell_order_ids": ids}
	}
	return noneResp()
}

// ---------------------------------------------------------------- normalisation

func walkAmts(v any, f func(*Amt)) {
	switch x := v.(type) {
	case *Amt:
		f(x)
	case map[string]any:
		for _, e := range x {
			walkAmts(e, f)
		}
	case []any:
		for _, e := range x {
			walkAmts(e, f)
		}
	case []map[string]any:
		for _, e := range x {
			walkAmts(e, f)
		}
	case *State:
		if x == nil {
			return
		}
		for _, t := range [][]map[string]any{x.Bal, x.Supply, x.Bbal, x.Orders, x.Coins, x.Csupply} {
			walkAmts(t, f)
		}
	}
}

// normalise divides every amount of the trace by their gcd and records the unit.
func (r *runner) normalise() {
	g := new(big.Int)
	each := func(f func(*Amt)) {
		for _, l := range r.lines {
			walkAmts(l.St, f)
			walkAmts(l.Ev, f)
			walkAmts(l.Ob, f)
		}
	}
	each(func(a *Amt) {
		if a.Micro != nil && a.Micro.Sign() != 0 {
			g.GCD(nil, nil, g, new(big.Int).Abs(a.Micro))
		}
	})
	if g.Sign() == 0 {
		g.Set(r.prof.UnitMicro)
	}
	overflow := false
	each(func(a *Amt) {
		q := new(big.Int).Quo(a.Micro, g)
		if !q.IsInt64() || q.Int64() > 1<<30 || q.Int64() < -(1<<30) {
			overflow = true
			return
		}
		a.N = q.Int64()
	})
	// one abstract unit = g micro-credits = un/ud credits
	d := new(big.Int).GCD(nil, nil, g, micro)
	un, ud := new(big.Int).Quo(g, d), new(big.Int).Quo(micro, d)
	for _, l := range r.lines {
		if l.St == nil {
			continue
		}
		if un.IsInt64() && un.Int64() < 1<<20 {
			l.St.Unit.Un, l.St.Unit.Ud = un.Int64(), ud.Int64()
		} else {
			// too coarse for the price arithmetic of the marketplace; credits-only traces
			l.St.Unit.Un, l.St.Unit.Ud = 0, 1
		}
	}
	if overflow {
		r.skipped = "an amount does not fit 2^30 units after normalisation: outside the explored domain"
	}
}

func (r *runner) write(w *bufio.Writer) {
	if r.fatal != "" {
		bz, _ := json.Marshal(M{"k": "fatal", "id": r.b.ID, "err": r.fatal})
		w.Write(bz)
		w.WriteByte('\n')
		return
	}
	r.normalise()
	if r.skipped != "" {
		bz, _ := json.Marshal(M{"k": "skipped", "id": r.b.ID, "why": r.skipped})
		w.Write(bz)
		w.WriteByte('\n')
		return
	}
	// probe lines carry only the tables that differ from the main state ("d"); restore
	// lines carry no state at all -- the trace specification keeps the main state
	var base map[string]json.RawMessage
	fields := func(st *State) map[string]json.RawMessage {
		bz, err := json.Marshal(st)
		must(err)
		var m map[string]json.RawMessage
		must(json.Unmarshal(bz, &m))
		return m
	}
	for _, l := range r.lines {
		var bz []byte
		var err error
		switch {
		case l.St != nil && l.K == "probe" && base != nil:
			d := map[string]json.RawMessage{}
			for k, v := range fields(l.St) {
				if string(base[k]) != string(v) {
					d[k] = v
				}
			}
			bz, err = json.Marshal(M{"k": l.K, "ev": l.Ev, "ob": l.Ob, "d": d})
		case l.K == "restore":
			bz, err = json.Marshal(M{"k": l.K, "ev": l.Ev, "ob": l.Ob})
		default:
			if l.St != nil {
				base = fields(l.St)
			}
			bz, err = json.Marshal(l)
		}
		must(err)
		w.Write(bz)
		w.WriteByte('\n')
	}
}

// runCLI: harness run -in behaviours.ndjson -out trace.ndjson
func runCLI(args []string) int {
	if len(args) == 0 {
		fmt.Fprintln(os.Stderr, "usage: harness run|probe ...")
		return 2
	}
	switch args[0] {
	case "run":
		fs := flag.NewFlagSet("run", flag.ExitOnError)
		in := fs.String("in", "", "behaviours (ndjson, one behaviour per line)")
		out := fs.String("out", "", "implementation trace (ndjson)")
		fs.Parse(args[1:])
		return runFile(*in, *out)
	}
	if args[0] == "iri" {
		fs := flag.NewFlagSet("iri", flag.ExitOnError)
		in := fs.String("in", "", "cases (ndjson)")
		out := fs.String("out", "", "results (ndjson)")
		fs.Parse(args[1:])
		return iriCLI(*in, *out)
	}
	if args[0] == "dec" {
		fs := flag.NewFlagSet("dec", flag.ExitOnError)
		in := fs.String("in", "", "cases (ndjson: {op, a: [...], b: [...]})")
		out := fs.String("out", "", "results (ndjson)")
		fs.Parse(args[1:])
		return decCLI(*in, *out)
	}
	if args[0] == "big" {
		fs := flag.NewFlagSet("big", flag.ExitOnError)
		in := fs.String("in", "", "behaviours of spec/Big.tla (ndjson)")
		out := fs.String("out", "", "implementation trace (ndjson)")
		fs.Parse(args[1:])
		return bigCLI(*in, *out)
	}
	if args[0] == "idfmt" {
		fs := flag.NewFlagSet("idfmt", flag.ExitOnError)
		in := fs.String("in", "", "candidates (ndjson: {chars: [...]})")
		out := fs.String("out", "", "results (ndjson)")
		fs.Parse(args[1:])
		return idfmtCLI(*in, *out)
	}
	fmt.Fprintln(os.Stderr, "unknown command", args[0])
	return 2
}

func runFile(in, out string) int {
	f, err := os.Open(in)
	if err != nil {
		fmt.Fprintln(os.Stderr, err)
		return 2
	}
	defer f.Close()
	o, err := os.Create(out)
	if err != nil {
		fmt.Fprintln(os.Stderr, err)
		return 2
	}
	defer o.Close()
	w := bufio.NewWriterSize(o, 1<<20)
	defer w.Flush()
	sc := bufio.NewScanner(f)
	sc.Buffer(make([]byte, 1<<20), 1<<28)
	n := 0
	for sc.Scan() {
		line := strings.TrimSpace(sc.Text())
		if line == "" {
			continue
		}
		var b Behaviour
		if err := json.Unmarshal([]byte(line), &b); err != nil {
			fmt.Fprintln(os.Stderr, "bad behaviour:", err)
			return 2
		}
		r := &runner{b: &b}
		func() {
			defer func() {
				if p := recover(); p != nil {
					r.fatal = fmt.Sprintf("harness panic: %v", p)
				}
			}()
			r.run()
		}()
		r.write(w)
		n++
	}
	fmt.Fprintf(os.Stderr, "executed %d behaviours\n", n)
	return 0
}
