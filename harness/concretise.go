package main

// The concretiser: abstract message (the record the specification's handler
// takes, as JSON) -> sdk.Msg.  Amount leaves of the abstract message are replaced
// in place by *Amt values of the strings actually sent, so that the event logged
// in the trace describes the real request and is normalised like the state.

import (
	"fmt"
	"math/big"
	"math/rand"
	"strings"
	"time"

	sdk "github.com/cosmos/cosmos-sdk/types"
	banktypes "github.com/cosmos/cosmos-sdk/x/bank/types"
	gogotypes "github.com/cosmos/gogoproto/types"

	basetypes "github.com/regen-network/regen-ledger/x/ecocredit/v3/base/types/v1"
	baskettypes "github.com/regen-network/regen-ledger/x/ecocredit/v3/basket/types/v1"
	markettypes "github.com/regen-network/regen-ledger/x/ecocredit/v3/marketplace/types/v1"
)

// Profile fixes how abstract values are rendered in one trace.
type Profile struct {
	// UnitMicro: micro-credits (10^-6 credits) per abstract credit unit.
	UnitMicro *big.Int
	// Render selects decimal renderings: 0 plain, 1 mixed (padded, scientific, "+").
	Render int
	rng    *rand.Rand
}

func NewProfile(unit string, render int, seed int64) *Profile {
	u, ok := new(big.Int).SetString(unit, 10)
	if !ok || u.Sign() <= 0 {
		panic("bad unit " + unit)
	}
	return &Profile{UnitMicro: u, Render: render, rng: rand.New(rand.NewSource(seed))}
}

// creditString renders n abstract units as a decimal string of credits.
func (p *Profile) creditString(n int64) string {
	m := new(big.Int).Mul(big.NewInt(n), p.UnitMicro) // micro-credits
	neg := m.Sign() < 0
	if neg {
		m.Neg(m)
	}
	q, r := new(big.Int).QuoRem(m, micro, new(big.Int))
	s := q.String()
	frac := fmt.Sprintf("%06d", r.Int64())
	variant := 0
	if p.Render == 1 {
		variant = p.rng.Intn(5)
	}
	switch variant {
	case 1: // padded to the full precision
		s = s + "." + frac
	case 2: // scientific notation, exact
		s = new(big.Int).Set(m).String() + "e-6"
	default:
		frac = strings.TrimRight(frac, "0")
		if frac != "" {
			s = s + "." + frac
		}
		if variant == 3 && !neg {
			s = "+" + s
		}
	}
	if variant == 4 { // leading zero
		s = "0" + s
	}
	if neg {
		s = "-" + s
	}
	return s
}

// tokenString renders n abstract units as an integer amount of basket tokens.
func (p *Profile) tokenString(n int64) string {
	s := new(big.Int).Mul(big.NewInt(n), p.UnitMicro).String()
	if p.Render == 1 && n > 0 && p.rng.Intn(4) == 0 {
		s = "0" + s // a decimal integer with a leading zero
	}
	return s
}

// ---------------------------------------------------------------- abstract message access

type M = map[string]any

func str(m M, k string) string {
	v, ok := m[k]
	if !ok {
		panic(fmt.Sprintf("abstract message %v: missing field %q", m["type"], k))
	}
	s, ok := v.(string)
	if !ok {
		panic(fmt.Sprintf("abstract message %v: field %q is not a string: %v", m["type"], k, v))
	}
	return s
}

func num(m M, k string) int64 {
	v, ok := m[k]
	if !ok {
		panic(fmt.Sprintf("abstract message %v: missing field %q", m["type"], k))
	}
	switch x := v.(type) {
	case float64:
		return int64(x)
	case int64:
		return x
	case int:
		return int64(x)
	case uint64:
		return int64(x)
	case uint32:
		return int64(x)
	case *Amt:
		panic("amount already concretised: " + k)
	}
	panic(fmt.Sprintf("abstract message %v: field %q is not a number: %v", m["type"], k, v))
}

func boolean(m M, k string) bool {
	v, ok := m[k].(bool)
	if !ok {
		panic(fmt.Sprintf("abstract message %v: field %q is not a bool", m["type"], k))
	}
	return v
}

func list(m M, k string) []M {
	v, ok := m[k]
	if !ok {
		panic(fmt.Sprintf("abstract message %v: missing list %q", m["type"], k))
	}
	arr, ok := v.([]any)
	if !ok {
		panic(fmt.Sprintf("abstract message %v: field %q is not a list", m["type"], k))
	}
	out := make([]M, len(arr))
	for i := range arr {
		out[i] = arr[i].(map[string]any)
	}
	return out
}

func strList(m M, k string) []string {
	arr, ok := m[k].([]any)
	if !ok {
		panic(fmt.Sprintf("abstract message %v: field %q is not a list", m["type"], k))
	}
	out := make([]string, len(arr))
	for i := range arr {
		out[i] = arr[i].(string)
	}
	return out
}

func sub(m M, k string) M {
	v, ok := m[k].(map[string]any)
	if !ok {
		panic(fmt.Sprintf("abstract message %v: field %q is not a record", m["type"], k))
	}
	return v
}

// credit replaces the abstract amount m[k] by the Amt of the string sent.
func (p *Profile) credit(m M, k string) string {
	if raw, ok := m[k+"_raw"].(string); ok { // the driver supplies the exact string
		m[k] = CreditAmt(raw)
		return raw
	}
	s := p.creditString(num(m, k))
	m[k] = CreditAmt(s)
	return s
}

func (p *Profile) token(m M, k string) string {
	s, ok := m[k+"_tokens_raw"].(string) // the driver supplies the exact string
	if !ok {
		s = p.tokenString(num(m, k))
	}
	// the amount of tokens the string denotes for the chain: MsgTake.Amount is an sdk.Int string
	// (base prefixes are honoured: "010" is 8)
	i, ok := sdk.NewIntFromString(s)
	if !ok {
		i = sdk.ZeroInt()
	}
	m[k] = TokenAmt(i)
	return s
}

func addrs(names []string) []string {
	out := make([]string, len(names))
	for i, n := range names {
		out[i] = AddrStr(n)
	}
	return out
}

func optCoin(m M, k string) *sdk.Coin {
	c := sub(m, k)
	if !boolean(c, "set") {
		return nil
	}
	return &sdk.Coin{Denom: str(c, "denom"), Amount: sdk.NewInt(num(c, "amt"))}
}

func optTime(m M, k string) *time.Time {
	c := sub(m, k)
	if !boolean(c, "set") {
		return nil
	}
	t := MarketTime(int(num(c, "t"))) // optional times of messages are sell order expirations
	return &t
}

// pools of strings without semantics
var ethContract = map[string]string{
	"k1": "0x0E65079a29d7793ab5CA500c2d88e60EE99bA606",
	"k2": "0x1E65079a29d7793ab5CA500c2d88e60EE99bA607",
	"k3": "0x2E65079a29d7793ab5CA500c2d88e60EE99bA608",
	"":   "",
}
var ethTx = map[string]string{
	"x1": "0x7a70692a348e8688f54ab2bdfe87d925d8cc88932520492a11eaa02dc128243e",
	"x2": "0x8a70692a348e8688f54ab2bdfe87d925d8cc88932520492a11eaa02dc128243f",
	"x3": "0x9a70692a348e8688f54ab2bdfe87d925d8cc88932520492a11eaa02dc1282440",
}

const ethRecipient = "0x323b5d4c32345ced77393b3530b1eed0f346429d"

func originTx(m M, k string, bridge bool) *basetypes.OriginTx {
	o := sub(m, k)
	if !boolean(o, "set") {
		return nil
	}
	id := str(o, "id")
	if v, ok := ethTx[id]; ok { // the same concrete id in all three issuing messages
		id = v
	}
	_ = bridge
	c := str(o, "contract")
	if v, ok := ethContract[c]; ok {
		c = v
	}
	return &basetypes.OriginTx{Id: id, Source: str(o, "src"), Contract: c}
}

// abstractContract / abstractTx map the pool values back (for the projector)
func abstractContract(s string) string {
	for k, v := range ethContract {
		if v == s && k != "" {
			return k
		}
	}
	return s
}
func abstractTx(s string) string {
	for k, v := range ethTx {
		if v == s {
			return k
		}
	}
	return s
}

func rateString(r M) string {
	switch str(r, "kind") {
	case "empty":
		return ""
	case "zero":
		if v, ok := r["raw"].(string); ok {
			return v
		}
		return "0"
	}
	q := new(big.Rat).SetFrac64(num(r, "num"), num(r, "den"))
	return q.FloatString(rateDecimals)
}

// rateDecimals: fee rates are rendered with 6 decimal places, or -- under the mixed rendering
// profile -- padded to 30: the same value with a 30-digit coefficient, which is where an exact
// multiplication (34 significant digits) starts to matter
var rateDecimals = 6

func critOf(c M) *baskettypes.DateCriteria {
	switch str(c, "kind") {
	case "min":
		ts, _ := gogotypes.TimestampProto(TickTime(int(num(c, "v"))))
		return &baskettypes.DateCriteria{MinStartDate: ts}
	case "window":
		return &baskettypes.DateCriteria{StartDateWindow: gogotypes.DurationProto(time.Duration(num(c, "v")) * tickDur)}
	case "years":
		return &baskettypes.DateCriteria{YearsInThePast: uint32(num(c, "v"))}
	}
	return nil
}

// Concretise builds the sdk.Msg of an abstract message (and rewrites the amount
// leaves of m).  A message type the harness does not know is an error of the
// behaviour file, not of the system under test.
func (p *Profile) Concretise(m M) (msg sdk.Msg, err error) {
	defer func() {
		if r := recover(); r != nil {
			err = fmt.Errorf("concretise %v: %v", m["type"], r)
		}
	}()
	if msg, ok, err := p.concretiseData(m); ok {
		return msg, err
	}
	if msg, ok, err := p.concretiseIntertx(m); ok {
		return msg, err
	}
	switch str(m, "type") {
	case "CreateClass":
		return &basetypes.MsgCreateClass{Admin: AddrStr(str(m, "admin")), Issuers: addrs(strList(m, "issuers")),
			Metadata: str(m, "meta"), CreditTypeAbbrev: str(m, "ct"), Fee: optCoin(m, "fee")}, nil
	case "CreateProject":
		return &basetypes.MsgCreateProject{Admin: AddrStr(str(m, "admin")), ClassId: str(m, "class_id"), Metadata: str(m, "meta"),
			Jurisdiction: str(m, "jur"), ReferenceId: str(m, "ref")}, nil
	case "CreateBatch":
		st, en := TickTime(int(num(m, "start"))), TickTime(int(num(m, "end")))
		return &basetypes.MsgCreateBatch{Issuer: AddrStr(str(m, "issuer")), ProjectId: str(m, "project_id"), Issuance: p.issuance(m),
			Metadata: str(m, "meta"), StartDate: &st, EndDate: &en, Open: boolean(m, "open"), OriginTx: originTx(m, "origin", false)}, nil
	case "MintBatchCredits":
		return &basetypes.MsgMintBatchCredits{Issuer: AddrStr(str(m, "issuer")), BatchDenom: str(m, "batch_denom"), Issuance: p.issuance(m),
			OriginTx: originTx(m, "origin", false)}, nil
	case "SealBatch":
		return &basetypes.MsgSealBatch{Issuer: AddrStr(str(m, "issuer")), BatchDenom: str(m, "batch_denom")}, nil
	case "UpdateBatchMetadata":
		return &basetypes.MsgUpdateBatchMetadata{Issuer: AddrStr(str(m, "issuer")), BatchDenom: str(m, "batch_denom"), NewMetadata: str(m, "meta")}, nil
	case "Send":
		var cs []*basetypes.MsgSend_SendCredits
		for _, e := range list(m, "credits") {
			c := &basetypes.MsgSend_SendCredits{BatchDenom: str(e, "denom"), TradableAmount: p.credit(e, "t"), RetiredAmount: p.credit(e, "r"),
				RetirementJurisdiction: "US-WA", RetirementReason: "offset"}
			cs = append(cs, c)
		}
		return &basetypes.MsgSend{Sender: AddrStr(str(m, "sender")), Recipient: AddrStr(str(m, "recipient")), Credits: cs}, nil
	case "Retire":
		return &basetypes.MsgRetire{Owner: AddrStr(str(m, "owner")), Credits: p.credits(m), Jurisdiction: "US-WA", Reason: "offset"}, nil
	case "Cancel":
		return &basetypes.MsgCancel{Owner: AddrStr(str(m, "owner")), Credits: p.credits(m), Reason: "cancelled"}, nil
	case "Bridge":
		return &basetypes.MsgBridge{Owner: AddrStr(str(m, "owner")), Target: str(m, "target"), Recipient: ethRecipient, Credits: p.credits(m)}, nil
	case "BridgeReceive":
		st, en := TickTime(int(num(m, "start"))), TickTime(int(num(m, "end")))
		return &basetypes.MsgBridgeReceive{Issuer: AddrStr(str(m, "issuer")), ClassId: str(m, "class_id"),
			Project: &basetypes.MsgBridgeReceive_Project{ReferenceId: str(m, "ref"), Jurisdiction: str(m, "pjur"), Metadata: str(m, "pmeta")},
			Batch: &basetypes.MsgBridgeReceive_Batch{Recipient: AddrStr(str(m, "to")), Amount: p.credit(m, "amt"), StartDate: &st, EndDate: &en,
				Metadata: str(m, "bmeta")},
			OriginTx: originTx(m, "origin", true)}, nil
	case "UpdateClassAdmin":
		return &basetypes.MsgUpdateClassAdmin{Admin: AddrStr(str(m, "admin")), ClassId: str(m, "class_id"), NewAdmin: AddrStr(str(m, "new_admin"))}, nil
	case "UpdateClassIssuers":
		return &basetypes.MsgUpdateClassIssuers{Admin: AddrStr(str(m, "admin")), ClassId: str(m, "class_id"),
			AddIssuers: addrs(strList(m, "add")), RemoveIssuers: addrs(strList(m, "remove"))}, nil
	case "UpdateClassMetadata":
		return &basetypes.MsgUpdateClassMetadata{Admin: AddrStr(str(m, "admin")), ClassId: str(m, "class_id"), NewMetadata: str(m, "meta")}, nil
	case "UpdateProjectAdmin":
		return &basetypes.MsgUpdateProjectAdmin{Admin: AddrStr(str(m, "admin")), ProjectId: str(m, "project_id"), NewAdmin: AddrStr(str(m, "new_admin"))}, nil
	case "UpdateProjectMetadata":
		return &basetypes.MsgUpdateProjectMetadata{Admin: AddrStr(str(m, "admin")), ProjectId: str(m, "project_id"), NewMetadata: str(m, "meta")}, nil
	case "AddCreditType":
		return &basetypes.MsgAddCreditType{Authority: AddrStr(str(m, "authority")),
			CreditType: &basetypes.CreditType{Abbreviation: str(m, "abbr"), Name: str(m, "name"), Unit: str(m, "unit"), Precision: 6}}, nil
	case "AddClassCreator":
		return &basetypes.MsgAddClassCreator{Authority: AddrStr(str(m, "authority")), Creator: AddrStr(str(m, "creator"))}, nil
	case "RemoveClassCreator":
		return &basetypes.MsgRemoveClassCreator{Authority: AddrStr(str(m, "authority")), Creator: AddrStr(str(m, "creator"))}, nil
	case "SetClassCreatorAllowlist":
		return &basetypes.MsgSetClassCreatorAllowlist{Authority: AddrStr(str(m, "authority")), Enabled: boolean(m, "enabled")}, nil
	case "UpdateClassFee":
		return &basetypes.MsgUpdateClassFee{Authority: AddrStr(str(m, "authority")), Fee: optCoin(m, "fee")}, nil
	case "AddAllowedBridgeChain":
		return &basetypes.MsgAddAllowedBridgeChain{Authority: AddrStr(str(m, "authority")), ChainName: str(m, "chain")}, nil
	case "RemoveAllowedBridgeChain":
		return &basetypes.MsgRemoveAllowedBridgeChain{Authority: AddrStr(str(m, "authority")), ChainName: str(m, "chain")}, nil
	case "BurnRegen":
		return &basetypes.MsgBurnRegen{Burner: AddrStr(str(m, "burner")), Amount: fmt.Sprint(num(m, "amt")), Reason: "burn"}, nil
	case "Unimplemented":
		signer := AddrStr(str(m, "signer"))
		switch str(m, "which") {
		case "CreateUnregisteredProject":
			return &basetypes.MsgCreateUnregisteredProject{Admin: signer, Metadata: "m0", Jurisdiction: "US"}, nil
		case "CreateOrUpdateApplication":
			return &basetypes.MsgCreateOrUpdateApplication{ProjectAdmin: signer, ProjectId: "C01-001", ClassId: "C01", Metadata: "m0"}, nil
		case "UpdateProjectEnrollment":
			return &basetypes.MsgUpdateProjectEnrollment{Issuer: signer, ProjectId: "C01-001", ClassId: "C01",
				NewStatus: basetypes.ProjectEnrollmentStatus_PROJECT_ENROLLMENT_STATUS_ACCEPTED}, nil
		default:
			return &basetypes.MsgUpdateProjectFee{Authority: signer, Fee: &sdk.Coin{Denom: "uregen", Amount: sdk.NewInt(1)}}, nil
		}

	// ---- basket
	case "BasketCreate":
		var fee sdk.Coins
		if c := optCoin(m, "fee"); c != nil {
			fee = sdk.Coins{*c}
		}
		return &baskettypes.MsgCreate{Curator: AddrStr(str(m, "curator")), Name: str(m, "name"), Description: "d", CreditTypeAbbrev: str(m, "ct"),
			AllowedClasses: strList(m, "classes"), DisableAutoRetire: boolean(m, "dar"), DateCriteria: critOf(sub(m, "crit")), Fee: fee}, nil
	case "Put":
		var cs []*baskettypes.BasketCredit
		for _, e := range list(m, "credits") {
			cs = append(cs, &baskettypes.BasketCredit{BatchDenom: str(e, "denom"), Amount: p.credit(e, "amt")})
		}
		return &baskettypes.MsgPut{Owner: AddrStr(str(m, "owner")), BasketDenom: str(m, "basket_denom"), Credits: cs}, nil
	case "Take":
		msg := &baskettypes.MsgTake{Owner: AddrStr(str(m, "owner")), BasketDenom: str(m, "basket_denom"), Amount: p.token(m, "amt"),
			RetireOnTake: boolean(m, "retire")}
		if msg.RetireOnTake {
			msg.RetirementJurisdiction = "US-WA"
			msg.RetirementReason = "offset"
		}
		return msg, nil
	case "UpdateCurator":
		return &baskettypes.MsgUpdateCurator{Curator: AddrStr(str(m, "curator")), NewCurator: AddrStr(str(m, "new_curator")), Denom: str(m, "denom")}, nil
	case "UpdateBasketFee":
		return &baskettypes.MsgUpdateBasketFee{Authority: AddrStr(str(m, "authority")), Fee: optCoin(m, "fee")}, nil
	case "UpdateDateCriteria":
		return &baskettypes.MsgUpdateDateCriteria{Authority: AddrStr(str(m, "authority")), Denom: str(m, "denom"), NewDateCriteria: critOf(sub(m, "crit"))}, nil

	// ---- marketplace
	case "Sell":
		var os []*markettypes.MsgSell_Order
		for _, e := range list(m, "orders") {
			os = append(os, &markettypes.MsgSell_Order{BatchDenom: str(e, "denom"), Quantity: p.credit(e, "qty"),
				AskPrice:          &sdk.Coin{Denom: str(e, "ask_denom"), Amount: sdk.NewInt(num(e, "ask_amt"))},
				DisableAutoRetire: boolean(e, "dar"), Expiration: optTime(e, "exp")})
		}
		return &markettypes.MsgSell{Seller: AddrStr(str(m, "seller")), Orders: os}, nil
	case "UpdateSellOrders":
		var us []*markettypes.MsgUpdateSellOrders_Update
		for _, e := range list(m, "updates") {
			us = append(us, &markettypes.MsgUpdateSellOrders_Update{SellOrderId: uint64(num(e, "id")), NewQuantity: p.credit(e, "qty"),
				NewAskPrice:       &sdk.Coin{Denom: str(e, "ask_denom"), Amount: sdk.NewInt(num(e, "ask_amt"))},
				DisableAutoRetire: boolean(e, "dar"), NewExpiration: optTime(e, "exp")})
		}
		return &markettypes.MsgUpdateSellOrders{Seller: AddrStr(str(m, "seller")), Updates: us}, nil
	case "CancelSellOrder":
		return &markettypes.MsgCancelSellOrder{Seller: AddrStr(str(m, "seller")), SellOrderId: uint64(num(m, "id"))}, nil
	case "BuyDirect":
		var os []*markettypes.MsgBuyDirect_Order
		for _, e := range list(m, "orders") {
			o := &markettypes.MsgBuyDirect_Order{SellOrderId: uint64(num(e, "id")), Quantity: p.credit(e, "qty"),
				BidPrice:          &sdk.Coin{Denom: str(e, "bid_denom"), Amount: sdk.NewInt(num(e, "bid_amt"))},
				DisableAutoRetire: boolean(e, "dar"), MaxFeeAmount: optCoin(e, "maxfee")}
			if !o.DisableAutoRetire {
				o.RetirementJurisdiction = "US-WA"
				o.RetirementReason = "offset"
			}
			os = append(os, o)
		}
		return &markettypes.MsgBuyDirect{Buyer: AddrStr(str(m, "buyer")), Orders: os}, nil
	case "AddAllowedDenom":
		return &markettypes.MsgAddAllowedDenom{Authority: AddrStr(str(m, "authority")), BankDenom: str(m, "bank"), DisplayDenom: str(m, "display"),
			Exponent: uint32(num(m, "exp"))}, nil
	case "RemoveAllowedDenom":
		return &markettypes.MsgRemoveAllowedDenom{Authority: AddrStr(str(m, "authority")), Denom: str(m, "denom")}, nil
	case "GovSetFeeParams":
		return &markettypes.MsgGovSetFeeParams{Authority: AddrStr(str(m, "authority")),
			Fees: &markettypes.FeeParams{BuyerPercentageFee: rateString(sub(m, "buyer")), SellerPercentageFee: rateString(sub(m, "seller"))}}, nil
	case "GovSendFromFeePool":
		return &markettypes.MsgGovSendFromFeePool{Authority: AddrStr(str(m, "authority")), Recipient: AddrStr(str(m, "recipient")),
			Coins: sdk.Coins{sdk.Coin{Denom: str(m, "denom"), Amount: sdk.NewInt(num(m, "n"))}}}, nil

	// ---- bank
	case "BankSend":
		denom := str(m, "denom")
		var amt sdk.Int
		if strings.HasPrefix(denom, "eco.") {
			amt, _ = sdk.NewIntFromString(p.token(m, "n"))
		} else {
			amt = sdk.NewInt(num(m, "n"))
		}
		return &banktypes.MsgSend{FromAddress: AddrStr(str(m, "from")), ToAddress: AddrStr(str(m, "to")),
			Amount: sdk.Coins{sdk.Coin{Denom: denom, Amount: amt}}}, nil
	}
	return nil, fmt.Errorf("unknown abstract message type %v", m["type"])
}

func (p *Profile) issuance(m M) []*basetypes.BatchIssuance {
	var out []*basetypes.BatchIssuance
	for _, e := range list(m, "issuance") {
		out = append(out, &basetypes.BatchIssuance{Recipient: AddrStr(str(e, "to")), TradableAmount: p.credit(e, "t"), RetiredAmount: p.credit(e, "r"),
			RetirementJurisdiction: "US-WA", RetirementReason: "offset"})
	}
	return out
}

func (p *Profile) credits(m M) []*basetypes.Credits {
	var out []*basetypes.Credits
	for _, e := range list(m, "credits") {
		out = append(out, &basetypes.Credits{BatchDenom: str(e, "denom"), Amount: p.credit(e, "amt")})
	}
	return out
}
