package main

// The intertx family (C20): the real intertx keeper and Msg service over
// recording stand-ins for its two expected keepers (ibc-go's ICA controller keeper
// and the scoped capability keeper).  The stand-ins hold the tables "active
// channel" / "capability owned" that the behaviour's environment steps set, and
// record every packet and registration the keeper hands them.

import (
	"strings"
	"time"

	"github.com/cosmos/cosmos-sdk/codec"
	codectypes "github.com/cosmos/cosmos-sdk/codec/types"
	sdk "github.com/cosmos/cosmos-sdk/types"
	banktypes "github.com/cosmos/cosmos-sdk/x/bank/types"
	capabilitytypes "github.com/cosmos/cosmos-sdk/x/capability/types"
	gogoproto "github.com/cosmos/gogoproto/proto"
	icatypes "github.com/cosmos/ibc-go/v7/modules/apps/27-interchain-accounts/types"
	host "github.com/cosmos/ibc-go/v7/modules/core/24-host"

	basetypes "github.com/regen-network/regen-ledger/x/ecocredit/v3/base/types/v1"
	intertxkeeper "github.com/regen-network/regen-ledger/x/intertx/keeper"
	intertxtypes "github.com/regen-network/regen-ledger/x/intertx/types/v1"
)

type sentPacket struct {
	Conn, Port string
	Data       icatypes.InterchainAccountPacketData
	Timeout    uint64
	BlockNanos int64
}

type regCall struct{ Conn, Owner, Version string }

type fakeICA struct {
	active map[string]string // conn|port -> channel id
	sent   []sentPacket
	regs   []regCall
}

func (f *fakeICA) RegisterInterchainAccount(_ sdk.Context, connectionID, owner, version string) error {
	f.regs = append(f.regs, regCall{connectionID, owner, version})
	return nil
}
func (f *fakeICA) GetActiveChannelID(_ sdk.Context, connectionID, portID string) (string, bool) {
	ch, ok := f.active[connectionID+"|"+portID]
	return ch, ok
}
func (f *fakeICA) SendTx(ctx sdk.Context, _ *capabilitytypes.Capability, connectionID, portID string, d icatypes.InterchainAccountPacketData, timeout uint64) (uint64, error) {
	f.sent = append(f.sent, sentPacket{Conn: connectionID, Port: portID, Data: d, Timeout: timeout, BlockNanos: ctx.BlockTime().UnixNano()})
	return uint64(len(f.sent)), nil
}
func (f *fakeICA) GetInterchainAccountAddress(_ sdk.Context, _ string, _ string) (string, bool) {
	return "", false
}

type fakeCaps struct {
	caps map[string]*capabilitytypes.Capability
	n    uint64
}

func (f *fakeCaps) ClaimCapability(_ sdk.Context, c *capabilitytypes.Capability, name string) error {
	f.caps[name] = c
	return nil
}
func (f *fakeCaps) GetCapability(_ sdk.Context, name string) (*capabilitytypes.Capability, bool) {
	c, ok := f.caps[name]
	return c, ok
}

type intertxEnv struct {
	ica  *fakeICA
	caps *fakeCaps
	k    intertxkeeper.Keeper
}

func newIntertxEnv(cdc codec.BinaryCodec) *intertxEnv {
	e := &intertxEnv{ica: &fakeICA{active: map[string]string{}}, caps: &fakeCaps{caps: map[string]*capabilitytypes.Capability{}}}
	e.k = intertxkeeper.NewKeeper(cdc, e.ica, e.caps)
	return e
}

// pool of inner messages
func innerMsg(name string) sdk.Msg {
	switch name {
	case "m1":
		return &banktypes.MsgSend{FromAddress: AddrStr("a1"), ToAddress: AddrStr("a2"), Amount: sdk.NewCoins(sdk.NewInt64Coin("uregen", 7))}
	case "m2":
		return &basetypes.MsgRetire{Owner: AddrStr("a3"), Credits: []*basetypes.Credits{{BatchDenom: "C01-001-20200101-20210101-001", Amount: "1.5"}},
			Jurisdiction: "US-WA", Reason: strings.Repeat("r", 300)}
	case "m3":
		return &banktypes.MsgSend{FromAddress: AddrStr("a2"), ToAddress: AddrStr("a1"), Amount: sdk.Coins{}}
	}
	panic("unknown inner message " + name)
}

func innerName(cdc codec.BinaryCodec, m sdk.Msg) string {
	got, err := gogoproto.Marshal(m)
	if err != nil {
		return "?"
	}
	for _, n := range []string{"m1", "m2", "m3"} {
		want, _ := gogoproto.Marshal(innerMsg(n))
		if gogoproto.MessageName(innerMsg(n)) == gogoproto.MessageName(m) && string(want) == string(got) {
			return n
		}
	}
	return "?"
}

func portOf(owner string) string {
	p, err := icatypes.NewControllerPortID(AddrStr(owner))
	must(err)
	return p
}

func (p *Profile) concretiseIntertx(m M) (sdk.Msg, bool, error) {
	switch str(m, "type") {
	case "SubmitTx":
		any, err := codectypes.NewAnyWithValue(innerMsg(str(m, "msg")))
		if err != nil {
			return nil, true, err
		}
		return &intertxtypes.MsgSubmitTx{Owner: AddrStr(str(m, "owner")), ConnectionId: str(m, "conn"), Msg: any}, true, nil
	case "RegisterAccount":
		return &intertxtypes.MsgRegisterAccount{Owner: AddrStr(str(m, "owner")), ConnectionId: str(m, "conn"), Version: str(m, "version")}, true, nil
	}
	return nil, false, nil
}

// setChannel is the environment step: channel handshake / capability claim results.
func (e *intertxEnv) setChannel(owner, conn string, active, cap bool) {
	port := portOf(owner)
	chanID := chanOf(conn)
	if active {
		e.ica.active[conn+"|"+port] = chanID
	} else {
		delete(e.ica.active, conn+"|"+port)
	}
	name := host.ChannelCapabilityPath(port, chanID)
	if cap {
		e.caps.n++
		e.caps.caps[name] = capabilitytypes.NewCapability(e.caps.n)
	} else {
		delete(e.caps.caps, name)
	}
}

// every connection has its own channel per port, so (owner, connection) names one
// channel and one capability
func chanOf(conn string) string { return "channel-" + strings.TrimPrefix(conn, "connection-") }

// IntertxState is the projection (spec/Intertx.tla).
type IntertxState struct {
	Now   int              `json:"now"`
	Chans []map[string]any `json:"chans"`
	Caps  []map[string]any `json:"caps"`
	Sent  []map[string]any `json:"sent"`
	Regs  []map[string]any `json:"regs"`
}

func ownerOfPort(port string) string {
	const pre = "icacontroller-" // icatypes.ControllerPortPrefix
	if !strings.HasPrefix(port, pre) {
		return "?"
	}
	// the owner is the exact string after the prefix (port ids are case-sensitive)
	rest := strings.TrimPrefix(port, pre)
	for _, n := range intertxOwners {
		if AddrStr(n) == rest {
			return n
		}
	}
	return "?"
}

var intertxOwners = []string{"a1", "a2", "a3", "a4", "A1", "A2", "A3"}

func (a *App) ProjectIntertx(ctx sdk.Context) *IntertxState {
	e := a.itx
	s := &IntertxState{Chans: []map[string]any{}, Caps: []map[string]any{}, Sent: []map[string]any{}, Regs: []map[string]any{}}
	s.Now, _ = TimeTick(ctx.BlockTime().Truncate(time.Second)) // block times of this family carry a sub-second part
	for _, conn := range []string{"connection-0", "connection-1", "connection-2"} {
		for _, o := range intertxOwners {
			port := portOf(o)
			if _, ok := e.ica.active[conn+"|"+port]; ok {
				s.Chans = append(s.Chans, map[string]any{"owner": o, "conn": conn})
			}
			if _, ok := e.caps.caps[host.ChannelCapabilityPath(port, chanOf(conn))]; ok {
				s.Caps = append(s.Caps, map[string]any{"owner": o, "conn": conn})
			}
		}
	}
	for _, p := range e.ica.sent {
		names := []string{}
		msgs, err := icatypes.DeserializeCosmosTx(a.cdc, p.Data.Data)
		if err != nil {
			names = append(names, "undecodable")
		}
		for _, m := range msgs {
			names = append(names, innerName(a.cdc, m))
		}
		d := int64(p.Timeout) - p.BlockNanos
		s.Sent = append(s.Sent, map[string]any{"owner": ownerOfPort(p.Port), "conn": p.Conn, "msgs": names, "kind": p.Data.Type.String()[len("TYPE_"):],
			"dsec": d / 1e9, "dns": d % 1e9})
	}
	for _, r := range e.ica.regs {
		owner := "?"
		for _, n := range intertxOwners {
			if AddrStr(n) == r.Owner {
				owner = n
			}
		}
		s.Regs = append(s.Regs, map[string]any{"owner": owner, "conn": r.Conn, "version": r.Version})
	}
	return s
}
