package main

// Genesis concretiser: an abstract state (the specification's `st` record as
// JSON) -> the ORM genesis document of the ecocredit module plus initial bank
// balances.  Used to start a chain in any state of the specification's Init set
// (or in any state TLC reached, for the edge-cover replay).

import (
	"encoding/json"
	"fmt"
	"math/big"
	"strings"

	basev1beta1 "cosmossdk.io/api/cosmos/base/v1beta1"
	sdk "github.com/cosmos/cosmos-sdk/types"
	"google.golang.org/protobuf/encoding/protojson"
	"google.golang.org/protobuf/proto"
	"google.golang.org/protobuf/types/known/durationpb"
	"google.golang.org/protobuf/types/known/timestamppb"

	basketapi "github.com/regen-network/regen-ledger/api/v2/regen/ecocredit/basket/v1"
	marketapi "github.com/regen-network/regen-ledger/api/v2/regen/ecocredit/marketplace/v1"
	baseapi "github.com/regen-network/regen-ledger/api/v2/regen/ecocredit/v1"
)

type genBuilder struct {
	out map[string]json.RawMessage
}

func (g *genBuilder) table(rows []proto.Message, seq int64, empty proto.Message) {
	name := string(empty.ProtoReflect().Descriptor().FullName())
	var parts []string
	if seq > 0 {
		parts = append(parts, fmt.Sprint(seq))
	}
	for _, r := range rows {
		bz, err := protojson.MarshalOptions{UseProtoNames: true, EmitUnpopulated: false}.Marshal(r)
		must(err)
		parts = append(parts, string(bz))
	}
	g.out[name] = json.RawMessage("[" + strings.Join(parts, ",") + "]")
}

func (g *genBuilder) singleton(msg proto.Message) {
	name := string(msg.ProtoReflect().Descriptor().FullName())
	bz, err := protojson.MarshalOptions{UseProtoNames: true, EmitUnpopulated: true}.Marshal(msg)
	must(err)
	g.out[name] = bz
}

func tickTS(t int64) *timestamppb.Timestamp { return timestamppb.New(TickTime(int(t))) }

func rows(st M, k string) []M {
	if _, ok := st[k]; !ok {
		return nil
	}
	return list(st, k)
}

func apiCoin(c M) *basev1beta1.Coin {
	if !boolean(c, "set") {
		return nil
	}
	return &basev1beta1.Coin{Denom: str(c, "denom"), Amount: fmt.Sprint(num(c, "amt"))}
}

func apiCrit(c M) *basketapi.DateCriteria {
	switch str(c, "kind") {
	case "min":
		return &basketapi.DateCriteria{MinStartDate: tickTS(num(c, "v"))}
	case "window":
		return &basketapi.DateCriteria{StartDateWindow: durationpb.New(tickDur * timeDuration(num(c, "v")))}
	case "years":
		return &basketapi.DateCriteria{YearsInThePast: uint32(num(c, "v"))}
	}
	return nil
}

// GenesisFromState renders the abstract state st.  The amounts of st are in
// abstract units of the profile.
func (p *Profile) GenesisFromState(a *App, st M) *GenesisInput {
	g := &genBuilder{out: map[string]json.RawMessage{}}
	amt := func(m M, k string) string { return p.creditString(num(m, k)) }
	seq := sub(st, "seq")

	var rs []proto.Message
	for _, r := range rows(st, "ctypes") {
		rs = append(rs, &baseapi.CreditType{Abbreviation: str(r, "abbr"), Name: str(r, "name"), Unit: str(r, "unit"), Precision: uint32(num(r, "prec"))})
	}
	g.table(rs, 0, &baseapi.CreditType{})
	rs = nil
	for _, r := range rows(st, "classes") {
		rs = append(rs, &baseapi.Class{Key: uint64(num(r, "key")), Id: str(r, "id"), Admin: Addr(str(r, "admin")), Metadata: str(r, "meta"), CreditTypeAbbrev: str(r, "ct")})
	}
	g.table(rs, num(seq, "class"), &baseapi.Class{})
	rs = nil
	for _, r := range rows(st, "issuers") {
		rs = append(rs, &baseapi.ClassIssuer{ClassKey: uint64(num(r, "ck")), Issuer: Addr(str(r, "a"))})
	}
	g.table(rs, 0, &baseapi.ClassIssuer{})
	rs = nil
	for _, r := range rows(st, "projects") {
		rs = append(rs, &baseapi.Project{Key: uint64(num(r, "key")), Id: str(r, "id"), Admin: Addr(str(r, "admin")), ClassKey: uint64(num(r, "ck")),
			Jurisdiction: str(r, "jur"), Metadata: str(r, "meta"), ReferenceId: str(r, "ref")})
	}
	g.table(rs, num(seq, "project"), &baseapi.Project{})
	rs = nil
	for _, r := range rows(st, "batches") {
		rs = append(rs, &baseapi.Batch{Key: uint64(num(r, "key")), Issuer: Addr(str(r, "issuer")), ProjectKey: uint64(num(r, "pk")), Denom: str(r, "denom"),
			Metadata: str(r, "meta"), StartDate: tickTS(num(r, "start")), EndDate: tickTS(num(r, "end")), IssuanceDate: tickTS(num(r, "issued")),
			Open: boolean(r, "open"), ClassKey: uint64(num(r, "ck"))})
	}
	g.table(rs, num(seq, "batch"), &baseapi.Batch{})
	rs = nil
	for _, r := range rows(st, "cseq") {
		rs = append(rs, &baseapi.ClassSequence{CreditTypeAbbrev: str(r, "ct"), NextSequence: uint64(num(r, "next"))})
	}
	g.table(rs, 0, &baseapi.ClassSequence{})
	rs = nil
	for _, r := range rows(st, "pseq") {
		rs = append(rs, &baseapi.ProjectSequence{ClassKey: uint64(num(r, "ck")), NextSequence: uint64(num(r, "next"))})
	}
	g.table(rs, 0, &baseapi.ProjectSequence{})
	rs = nil
	for _, r := range rows(st, "bseq") {
		rs = append(rs, &baseapi.BatchSequence{ProjectKey: uint64(num(r, "pk")), NextSequence: uint64(num(r, "next"))})
	}
	g.table(rs, 0, &baseapi.BatchSequence{})
	rs = nil
	for _, r := range rows(st, "bal") {
		rs = append(rs, &baseapi.BatchBalance{BatchKey: uint64(num(r, "bk")), Address: Addr(str(r, "a")),
			TradableAmount: amt(r, "t"), RetiredAmount: amt(r, "r"), EscrowedAmount: amt(r, "e")})
	}
	g.table(rs, 0, &baseapi.BatchBalance{})
	rs = nil
	for _, r := range rows(st, "supply") {
		rs = append(rs, &baseapi.BatchSupply{BatchKey: uint64(num(r, "bk")), TradableAmount: amt(r, "t"), RetiredAmount: amt(r, "r"), CancelledAmount: amt(r, "c")})
	}
	g.table(rs, 0, &baseapi.BatchSupply{})
	rs = nil
	for _, r := range rows(st, "origintx") {
		id := str(r, "id")
		if v, ok := ethTx[id]; ok {
			id = v
		}
		rs = append(rs, &baseapi.OriginTxIndex{ClassKey: uint64(num(r, "ck")), Id: id, Source: str(r, "src")})
	}
	g.table(rs, 0, &baseapi.OriginTxIndex{})
	rs = nil
	for _, r := range rows(st, "contracts") {
		c := str(r, "contract")
		if v, ok := ethContract[c]; ok {
			c = v
		}
		rs = append(rs, &baseapi.BatchContract{BatchKey: uint64(num(r, "bk")), ClassKey: uint64(num(r, "ck")), Contract: c})
	}
	g.table(rs, 0, &baseapi.BatchContract{})
	g.singleton(&baseapi.ClassCreatorAllowlist{Enabled: boolean(st, "allowlist")})
	rs = nil
	for _, n := range strList(st, "creators") {
		rs = append(rs, &baseapi.AllowedClassCreator{Address: Addr(n)})
	}
	g.table(rs, 0, &baseapi.AllowedClassCreator{})
	g.singleton(&baseapi.ClassFee{Fee: apiCoin(sub(st, "classfee"))})
	rs = nil
	for _, n := range strList(st, "chains") {
		rs = append(rs, &baseapi.AllowedBridgeChain{ChainName: n})
	}
	g.table(rs, 0, &baseapi.AllowedBridgeChain{})
	g.table(nil, 0, &baseapi.ProjectEnrollment{})
	g.singleton(&baseapi.ProjectFee{})

	// basket
	basketDenoms := map[string]bool{}
	rs = nil
	for _, r := range rows(st, "baskets") {
		basketDenoms[str(r, "denom")] = true
		rs = append(rs, &basketapi.Basket{Id: uint64(num(r, "id")), BasketDenom: str(r, "denom"), Name: str(r, "name"), DisableAutoRetire: boolean(r, "dar"),
			CreditTypeAbbrev: str(r, "ct"), DateCriteria: apiCrit(sub(r, "crit")), Exponent: 6, Curator: Addr(str(r, "curator"))})
	}
	g.table(rs, num(seq, "basket"), &basketapi.Basket{})
	rs = nil
	for _, r := range rows(st, "bclasses") {
		rs = append(rs, &basketapi.BasketClass{BasketId: uint64(num(r, "bid")), ClassId: str(r, "cid")})
	}
	g.table(rs, 0, &basketapi.BasketClass{})
	rs = nil
	for _, r := range rows(st, "bbal") {
		rs = append(rs, &basketapi.BasketBalance{BasketId: uint64(num(r, "bid")), BatchDenom: str(r, "denom"), Balance: amt(r, "amt"), BatchStartDate: tickTS(num(r, "start"))})
	}
	g.table(rs, 0, &basketapi.BasketBalance{})
	g.singleton(&basketapi.BasketFee{Fee: apiCoin(sub(st, "basketfee"))})

	// marketplace
	rs = nil
	for _, r := range rows(st, "orders") {
		o := &marketapi.SellOrder{Id: uint64(num(r, "id")), Seller: Addr(str(r, "seller")), BatchKey: uint64(num(r, "bk")), Quantity: amt(r, "qty"),
			MarketId: uint64(num(r, "mid")), AskAmount: fmt.Sprint(num(r, "ask")), DisableAutoRetire: boolean(r, "dar"), Maker: boolean(r, "maker")}
		if e := sub(r, "exp"); boolean(e, "set") {
			o.Expiration = timestamppb.New(MarketTime(int(num(e, "t"))))
		}
		rs = append(rs, o)
	}
	g.table(rs, num(seq, "order"), &marketapi.SellOrder{})
	rs = nil
	for _, r := range rows(st, "markets") {
		rs = append(rs, &marketapi.Market{Id: uint64(num(r, "id")), CreditTypeAbbrev: str(r, "ct"), BankDenom: str(r, "denom")})
	}
	g.table(rs, num(seq, "market"), &marketapi.Market{})
	rs = nil
	for _, r := range rows(st, "denoms") {
		rs = append(rs, &marketapi.AllowedDenom{BankDenom: str(r, "bank"), DisplayDenom: str(r, "display"), Exponent: uint32(num(r, "exp"))})
	}
	g.table(rs, 0, &marketapi.AllowedDenom{})
	fp := sub(st, "feeparams")
	g.singleton(&marketapi.FeeParams{BuyerPercentageFee: rateString(sub(fp, "buyer")), SellerPercentageFee: rateString(sub(fp, "seller"))})

	bz, err := json.Marshal(g.out)
	must(err)
	gi := &GenesisInput{Ecocredit: bz, Data: a.DefaultDataGenesis(), Time: MarketTime(int(num(st, "now")))}
	for _, r := range rows(st, "coins") {
		d := str(r, "d")
		n := big.NewInt(num(r, "n"))
		if basketDenoms[d] {
			n.Mul(n, p.UnitMicro)
		}
		gi.Coins = append(gi.Coins, CoinRow{Addr: Addr(str(r, "a")), Denom: d, Amt: sdk.NewIntFromBigInt(n)})
	}
	return gi
}
