package main

// big mode (C01, C02, C04, C05 on very large amounts): behaviours of spec/Big.tla -- messages whose
// amounts are decimal STRINGS given as sequences of characters (10^33 credits next to 10^-6) -- are
// executed on the real keepers through ABCI; after every message the balance, supply and basket rows
// and the bank's token balances are logged AS THE STRINGS STORED, again as sequences of characters.
// TLC reads them with the parser of spec/Dec.tla and evaluates conservation, accounting, backing and
// conformance to Big.tla on digit sequences (TraceBig.tla).  Nothing is normalised or summed here.

import (
	"bufio"
	"context"
	"encoding/json"
	"fmt"
	"os"
	"strings"

	dbm "github.com/cometbft/cometbft-db"
	sdk "github.com/cosmos/cosmos-sdk/types"

	basketapi "github.com/regen-network/regen-ledger/api/v2/regen/ecocredit/basket/v1"
	baseapi "github.com/regen-network/regen-ledger/api/v2/regen/ecocredit/v1"
	basetypes "github.com/regen-network/regen-ledger/x/ecocredit/v3/base/types/v1"
	baskettypes "github.com/regen-network/regen-ledger/x/ecocredit/v3/basket/types/v1"
)

type bigBehaviour struct {
	ID    string `json:"id"`
	Steps []M    `json:"steps"`
}

func joinChars(v any) string {
	arr, ok := v.([]any)
	if !ok {
		if s, ok := v.(string); ok {
			return s
		}
		return ""
	}
	var sb strings.Builder
	for _, x := range arr {
		sb.WriteString(x.(string))
	}
	return sb.String()
}

type bigRunner struct {
	a      *App
	denoms [3]string // batch denoms, 1-based
	basket string
	mints  int
}

func (r *bigRunner) setup() error {
	a := NewApp(dbm.NewMemDB(), nil)
	g := &GenesisInput{Ecocredit: a.DefaultEcoGenesis(), Data: a.DefaultDataGenesis(), Time: TickTime(9)}
	g.Coins = append(g.Coins, CoinRow{Addr("a1"), "stake", sdkInt(1000000000)})
	if err := a.InitChain(g); err != nil {
		return err
	}
	a.BeginBlock(TickTime(9))
	r.a = a
	p := NewProfile("1000000", 0, 1)
	for _, js := range []string{
		`{"type":"CreateClass","admin":"a1","issuers":["a1"],"meta":"m0","ct":"C","fee":{"set":true,"denom":"stake","amt":20000000}}`,
		`{"type":"CreateProject","admin":"a1","class_id":"C01","meta":"m0","jur":"US","ref":""}`,
		`{"type":"CreateBatch","issuer":"a1","project_id":"C01-001","issuance":[{"to":"a1","t":0,"r":0}],"meta":"m0","start":6,"end":8,"open":true,"origin":{"set":false}}`,
		`{"type":"CreateBatch","issuer":"a1","project_id":"C01-001","issuance":[{"to":"a1","t":0,"r":0}],"meta":"m0","start":7,"end":8,"open":true,"origin":{"set":false}}`,
		`{"type":"BasketCreate","curator":"a1","name":"BIG","ct":"C","classes":["C01"],"dar":true,"crit":{"kind":"none"},"fee":{"set":true,"denom":"stake","amt":20000000}}`,
	} {
		var m M
		must(json.Unmarshal([]byte(js), &m))
		msg, err := p.Concretise(m)
		if err != nil {
			return err
		}
		res := a.Deliver(msg)
		if res.Code != 0 {
			return fmt.Errorf("big setup: %v failed: %s", m["type"], firstLine(res.Log))
		}
	}
	var c context.Context = a.Ctx()
	it, err := a.baseStore.BatchTable().List(c, baseapi.BatchPrimaryKey{})
	must(err)
	for it.Next() {
		v, err := it.Value()
		must(err)
		if v.Key >= 1 && v.Key <= 2 {
			r.denoms[v.Key] = v.Denom
		}
	}
	it.Close()
	bit, err := a.basketStore.BasketTable().List(c, basketapi.BasketPrimaryKey{})
	must(err)
	for bit.Next() {
		v, err := bit.Value()
		must(err)
		r.basket = v.BasketDenom
	}
	bit.Close()
	if r.denoms[1] == "" || r.denoms[2] == "" || r.basket == "" {
		return fmt.Errorf("big setup: batches or basket missing")
	}
	return nil
}

func (r *bigRunner) msgOf(m M) sdk.Msg {
	b := func() string { return r.denoms[int(num(m, "b"))] }
	switch str(m, "type") {
	case "Mint":
		r.mints++
		return &basetypes.MsgMintBatchCredits{Issuer: AddrStr("a1"), BatchDenom: b(),
			Issuance:  []*basetypes.BatchIssuance{{Recipient: AddrStr(str(m, "to")), TradableAmount: joinChars(m["t"]), RetiredAmount: joinChars(m["r"]), RetirementJurisdiction: "US-WA"}},
			OriginTx: &basetypes.OriginTx{Id: fmt.Sprintf("big-%d", r.mints), Source: "big"}}
	case "Send":
		return &basetypes.MsgSend{Sender: AddrStr(str(m, "from")), Recipient: AddrStr(str(m, "to")),
			Credits: []*basetypes.MsgSend_SendCredits{{BatchDenom: b(), TradableAmount: joinChars(m["t"]), RetiredAmount: joinChars(m["r"]), RetirementJurisdiction: "US-WA"}}}
	case "Retire":
		return &basetypes.MsgRetire{Owner: AddrStr(str(m, "a")), Jurisdiction: "US-WA",
			Credits: []*basetypes.Credits{{BatchDenom: b(), Amount: joinChars(m["x"])}}}
	case "Cancel":
		return &basetypes.MsgCancel{Owner: AddrStr(str(m, "a")), Reason: "big",
			Credits: []*basetypes.Credits{{BatchDenom: b(), Amount: joinChars(m["x"])}}}
	case "Put":
		return &baskettypes.MsgPut{Owner: AddrStr(str(m, "a")), BasketDenom: r.basket,
			Credits: []*baskettypes.BasketCredit{{BatchDenom: b(), Amount: joinChars(m["x"])}}}
	case "Take":
		msg := &baskettypes.MsgTake{Owner: AddrStr(str(m, "a")), BasketDenom: r.basket, Amount: joinChars(m["n"]), RetireOnTake: boolean(m, "retire")}
		if msg.RetireOnTake {
			msg.RetirementJurisdiction = "US-WA"
		}
		return msg
	}
	panic("big: unknown message type " + str(m, "type"))
}

// project: the rows as stored, every amount as the characters of the stored string
func (r *bigRunner) project() M {
	a := r.a
	ctx := a.Ctx()
	var c context.Context = ctx
	bal, sup, kb, tok := []M{}, []M{}, []M{}, []M{}
	it, err := a.baseStore.BatchBalanceTable().List(c, baseapi.BatchBalancePrimaryKey{})
	must(err)
	for it.Next() {
		v, err := it.Value()
		must(err)
		bal = append(bal, M{"a": Name(v.Address), "b": v.BatchKey, "t": chars(v.TradableAmount), "r": chars(v.RetiredAmount), "e": chars(v.EscrowedAmount)})
	}
	it.Close()
	sit, err := a.baseStore.BatchSupplyTable().List(c, baseapi.BatchSupplyPrimaryKey{})
	must(err)
	for sit.Next() {
		v, err := sit.Value()
		must(err)
		sup = append(sup, M{"b": v.BatchKey, "t": chars(v.TradableAmount), "r": chars(v.RetiredAmount), "c": chars(v.CancelledAmount)})
	}
	sit.Close()
	kit, err := a.basketStore.BasketBalanceTable().List(c, basketapi.BasketBalancePrimaryKey{})
	must(err)
	for kit.Next() {
		v, err := kit.Value()
		must(err)
		bk := uint64(0)
		for i := 1; i <= 2; i++ {
			if r.denoms[i] == v.BatchDenom {
				bk = uint64(i)
			}
		}
		kb = append(kb, M{"b": bk, "amt": chars(v.Balance)})
	}
	kit.Close()
	for _, n := range []string{"a1", "a2"} {
		tok = append(tok, M{"a": n, "n": chars(a.bk.GetBalance(ctx, Addr(n), r.basket).Amount.String())})
	}
	return M{"bal": bal, "sup": sup, "kb": kb, "tok": tok, "tsup": chars(a.bk.GetSupply(ctx, r.basket).Amount.String())}
}

func bigCLI(in, out string) int {
	f, err := os.Open(in)
	if err != nil {
		fmt.Fprintln(os.Stderr, err)
		return 2
	}
	defer f.Close()
	o, err := os.Create(out)
	if err != nil {
		fmt.Fprintln(os.Stderr, err)
		return 2
	}
	defer o.Close()
	w := bufio.NewWriterSize(o, 1<<20)
	defer w.Flush()
	emit := func(v M) {
		bz, err := json.Marshal(v)
		must(err)
		w.Write(bz)
		w.WriteByte('\n')
	}
	sc := bufio.NewScanner(f)
	sc.Buffer(make([]byte, 1<<20), 1<<26)
	for sc.Scan() {
		if strings.TrimSpace(sc.Text()) == "" {
			continue
		}
		var b bigBehaviour
		if err := json.Unmarshal(sc.Bytes(), &b); err != nil {
			fmt.Fprintln(os.Stderr, "bad behaviour:", err)
			return 2
		}
		func() {
			defer func() {
				if p := recover(); p != nil {
					emit(M{"k": "fatal", "id": b.ID, "err": fmt.Sprint(p)})
				}
			}()
			r := &bigRunner{}
			if err := r.setup(); err != nil {
				emit(M{"k": "fatal", "id": b.ID, "err": err.Error()})
				return
			}
			inv := r.a.RunInvariants(r.a.Ctx())
			emit(M{"k": "init", "id": b.ID, "ev": M{"type": "Init", "ok": true, "m": M{"type": "Init"}}, "st": r.project(),
				"ob": M{"panicked": false, "log": "", "inv_batch_supply": inv["batch-supply"], "inv_basket_supply": inv["basket-supply"]}})
			for _, m := range b.Steps {
				res := r.a.Deliver(r.msgOf(m))
				inv := r.a.RunInvariants(r.a.Ctx())
				emit(M{"k": "step", "ev": M{"type": m["type"], "ok": res.Code == 0, "m": m}, "st": r.project(),
					"ob": M{"panicked": res.Codespace == "undefined" && res.Code == 111222 || strings.Contains(res.Log, "recovered:"), "log": firstLine(res.Log),
						"inv_batch_supply": inv["batch-supply"], "inv_basket_supply": inv["basket-supply"]}})
			}
		}()
	}
	return 0
}
