package main

// The "iri" mode (C15): executes the cases the specification enumerates on the
// real ContentHash.Validate / ToIRI / ParseIRI and logs what the code returns.

import (
	"bufio"
	"bytes"
	"encoding/json"
	"fmt"
	"os"
	"strings"

	"github.com/cosmos/btcutil/base58"

	"github.com/regen-network/regen-ledger/x/data/v3"
)

func digestBytes(h string, n int) []byte {
	out := make([]byte, n)
	var b byte = 0xA0
	if h != "" {
		b = h[0]
	}
	for i := range out {
		out[i] = b + byte(i%7)
	}
	return out
}

func digestName(bz []byte) (string, int) {
	for _, h := range []string{"A", "B", "C"} {
		if bytes.Equal(bz, digestBytes(h, len(bz))) {
			return h, len(bz)
		}
	}
	return "?", len(bz)
}

func chOf(m M) *data.ContentHash {
	hash := digestBytes(str(m, "h"), int(num(m, "hlen")))
	if str(m, "kind") == "raw" {
		return &data.ContentHash{Raw: &data.ContentHash_Raw{Hash: hash, DigestAlgorithm: uint32(num(m, "alg")), FileExtension: str(m, "ext")}}
	}
	return &data.ContentHash{Graph: &data.ContentHash_Graph{Hash: hash, DigestAlgorithm: uint32(num(m, "alg")),
		CanonicalizationAlgorithm: uint32(num(m, "canon")), MerkleTree: uint32(num(m, "merkle"))}}
}

func absCH(ch *data.ContentHash) M {
	if ch == nil {
		return M{"kind": "nil", "h": "", "hlen": 0, "alg": 0, "canon": 0, "merkle": 0, "ext": ""}
	}
	if r := ch.GetRaw(); r != nil {
		h, n := digestName(r.Hash)
		return M{"kind": "raw", "h": h, "hlen": n, "alg": int64(r.DigestAlgorithm), "canon": 0, "merkle": 0, "ext": r.FileExtension}
	}
	if g := ch.GetGraph(); g != nil {
		h, n := digestName(g.Hash)
		return M{"kind": "graph", "h": h, "hlen": n, "alg": int64(g.DigestAlgorithm), "canon": int64(g.CanonicalizationAlgorithm),
			"merkle": int64(g.MerkleTree), "ext": ""}
	}
	return M{"kind": "nil", "h": "", "hlen": 0, "alg": 0, "canon": 0, "merkle": 0, "ext": ""}
}

func strCase(iri string) M {
	out := M{"k": "str", "iri": iri, "parse_ok": false, "re_ok": false, "re": ""}
	func() {
		defer func() {
			if p := recover(); p != nil {
				out["panic"] = fmt.Sprint(p)
			}
		}()
		ch, err := data.ParseIRI(iri)
		if err != nil {
			return
		}
		out["parse_ok"] = true
		re, err := ch.ToIRI()
		if err == nil {
			out["re_ok"] = true
			out["re"] = re
		}
	}()
	return out
}

// mutations of a valid IRI for the "any accepted IRI re-encodes" clause
func mutations(iri string) []string {
	body := strings.TrimPrefix(iri, "regen:")
	dot := strings.LastIndex(body, ".")
	b58, ext := body[:dot], body[dot+1:]
	payload, version, _ := base58.CheckDecode(b58)
	var out []string
	out = append(out, "Regen:"+body, "regen"+body, body, "regen:"+b58, "regen:"+b58+"."+ext+"."+ext, "regen:"+b58+".")
	out = append(out, "regen:"+b58+"."+strings.ToUpper(ext), "regen:"+b58+".t", "regen:"+b58+".toolong7", "regen:"+b58+".r-f")
	out = append(out, "regen:"+b58[:len(b58)-1]+"."+ext, "regen:1"+b58+"."+ext, "regen:"+strings.ToUpper(b58)+"."+ext)
	out = append(out, "regen:"+base58.CheckEncode(payload, version+1)+"."+ext)
	if len(payload) > 4 {
		p2 := append([]byte{2}, payload[1:]...)
		out = append(out, "regen:"+base58.CheckEncode(p2, version)+"."+ext)
		out = append(out, "regen:"+base58.CheckEncode(payload[:3], version)+"."+ext)
		out = append(out, "regen:"+base58.CheckEncode(payload[:1], version)+"."+ext)
		p3 := append([]byte{}, payload...)
		p3[1] = 0
		out = append(out, "regen:"+base58.CheckEncode(p3, version)+"."+ext)
		out = append(out, "regen:"+base58.CheckEncode(payload[:12], version)+"."+ext)
		// other kind with this extension
		p4 := append([]byte{}, payload...)
		p4[0] ^= 1
		out = append(out, "regen:"+base58.CheckEncode(p4, version)+"."+ext)
	}
	return out
}

func iriCLI(in, outPath string) int {
	f, err := os.Open(in)
	if err != nil {
		fmt.Fprintln(os.Stderr, err)
		return 2
	}
	defer f.Close()
	o, err := os.Create(outPath)
	if err != nil {
		fmt.Fprintln(os.Stderr, err)
		return 2
	}
	defer o.Close()
	w := bufio.NewWriter(o)
	defer w.Flush()
	emit := func(m M) {
		bz, _ := json.Marshal(m)
		w.Write(bz)
		w.WriteByte('\n')
	}
	sc := bufio.NewScanner(f)
	sc.Buffer(make([]byte, 1<<20), 1<<26)
	seen := map[string]bool{}
	for sc.Scan() {
		var c M
		if err := json.Unmarshal(sc.Bytes(), &c); err != nil {
			fmt.Fprintln(os.Stderr, "bad case:", err)
			return 2
		}
		if str(c, "k") == "str" {
			emit(strCase(str(c, "iri")))
			continue
		}
		m := sub(c, "ch")
		ch := chOf(m)
		out := M{"k": "ch", "ch": m, "valid": ch.Validate() == nil, "to_ok": false, "iri": "", "parse_ok": false,
			"parsed": absCH(nil), "re_ok": false, "re": ""}
		iri, err := ch.ToIRI()
		if err == nil {
			out["to_ok"], out["iri"] = true, iri
			p, err := data.ParseIRI(iri)
			if err == nil {
				out["parse_ok"], out["parsed"] = true, absCH(p)
				re, err := p.ToIRI()
				if err == nil {
					out["re_ok"], out["re"] = true, re
				}
			}
		}
		emit(out)
		if out["to_ok"] == true && !seen[iri] && len(seen) < 40 {
			seen[iri] = true
			for _, s := range mutations(iri) {
				emit(strCase(s))
			}
		}
	}
	return 0
}
