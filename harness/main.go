package main

import (
	"encoding/json"
	"fmt"
	"os"

	dbm "github.com/cometbft/cometbft-db"
)

func main() {
	if len(os.Args) > 1 && os.Args[1] == "probe" {
		probe()
		return
	}
	os.Exit(runCLI(os.Args[1:]))
}

func probe() {
	a := NewApp(dbm.NewMemDB(), nil)
	g := &GenesisInput{Ecocredit: a.DefaultEcoGenesis(), Data: a.DefaultDataGenesis(), Time: TickTime(6)}
	g.Coins = append(g.Coins, CoinRow{Addr("a1"), "stake", sdkInt(100000000)})
	must(a.InitChain(g))
	a.BeginBlock(TickTime(6))
	p := NewProfile("1000000", 0, 1)
	for _, js := range []string{
		`{"type":"CreateClass","admin":"a1","issuers":["a1","a2"],"meta":"m0","ct":"C","fee":{"set":true,"denom":"stake","amt":20000000}}`,
		`{"type":"CreateProject","admin":"a1","class_id":"C01","meta":"m0","jur":"US","ref":""}`,
		`{"type":"CreateBatch","issuer":"a1","project_id":"C01-001","issuance":[{"to":"a1","t":2,"r":1}],"meta":"m0","start":7,"end":8,"open":true,"origin":{"set":true,"id":"x1","src":"polygon","contract":"k1"}}`,
		`{"type":"Send","sender":"a1","recipient":"a2","credits":[{"denom":"C01-001-19700527-19700808-001","t":1,"r":0}]}`,
	} {
		var m M
		must(json.Unmarshal([]byte(js), &m))
		msg, err := p.Concretise(m)
		must(err)
		r := a.Deliver(msg)
		fmt.Println(m["type"], r.Code, r.Log, r.GasUsed)
	}
	st, notes := a.ProjectEco(a.Ctx())
	bz, _ := json.Marshal(st)
	fmt.Println(string(bz))
	bz, _ = json.Marshal(notes)
	fmt.Println(string(bz))
	fmt.Println(string(a.eco.ExportGenesis(a.Ctx(), a.cdc)))
	fmt.Println(a.RunInvariants(a.Ctx()))
}
