package main

// Observation steps: they do not send a message; they look at the chain from
// outside (export / import of genesis, re-execution in fresh processes) and log
// what they saw.  The specification treats them as steps that leave the abstract
// state unchanged; the formulas of C09 / C10 are evaluated on what is logged here.

import (
	"bytes"
	"encoding/json"
	"fmt"
	"math/rand"
	"strings"

	dbm "github.com/cometbft/cometbft-db"
	sdk "github.com/cosmos/cosmos-sdk/types"
)

func canonJSON(bz []byte) string {
	var v any
	if err := json.Unmarshal(bz, &v); err != nil {
		return "unparsable: " + err.Error()
	}
	out, _ := json.Marshal(v) // map keys are sorted by encoding/json
	return string(out)
}

// exportImport: export both modules, validate with the modules' own validators,
// import into an empty chain, re-export and compare, run the invariants there.
// The behaviour then CONTINUES ON THE IMPORTED CHAIN, so that every reachable
// state also serves as a genesis state for what follows.
func (r *runner) exportImport(ob M) {
	ctx := r.app.Ctx()
	var eco, dat json.RawMessage
	ob["export_panic"] = ""
	func() {
		defer func() {
			if p := recover(); p != nil {
				ob["export_panic"] = fmt.Sprint(p)
			}
		}()
		eco = r.app.eco.ExportGenesis(ctx, r.app.cdc)
		dat = r.app.dataExportGenesis(ctx)
	}()
	ob["validate_eco"] = ""
	ob["validate_data"] = ""
	ob["import_panic"] = ""
	ob["reexport_equal"] = false
	ob["inv_after_import"] = ""
	if ob["export_panic"] != "" {
		return
	}
	ob["validate_eco_table"] = ""
	ob["validate_data_table"] = ""
	if err := r.app.eco.ValidateGenesis(r.app.cdc, nil, eco); err != nil {
		ob["validate_eco"] = firstLine(err.Error())
		ob["validate_eco_table"] = tableOfError(err.Error())
	}
	if err := r.app.dataValidateGenesis(dat); err != nil {
		ob["validate_data"] = firstLine(err.Error())
		ob["validate_data_table"] = tableOfError(err.Error())
	}
	// bank state travels with the chain
	gi := &GenesisInput{Ecocredit: eco, Data: dat, Time: r.app.blockTime}
	r.app.bk.IterateAllBalances(ctx, func(addr sdk.AccAddress, c sdk.Coin) bool {
		gi.Coins = append(gi.Coins, CoinRow{Addr: addr, Denom: c.Denom, Amt: c.Amount})
		return false
	})
	ndb := dbm.NewMemDB()
	na := NewApp(ndb, r.b.Weak)
	if err := na.InitChain(gi); err != nil {
		ob["import_panic"] = firstLine(err.Error())
		return
	}
	_, p := na.BeginBlock(r.app.blockTime)
	if p != "" {
		ob["import_panic"] = "begin block after import: " + p
		return
	}
	nctx := na.Ctx()
	eco2 := na.eco.ExportGenesis(nctx, na.cdc)
	dat2 := na.dataExportGenesis(nctx)
	ob["reexport_equal"] = canonJSON(eco) == canonJSON(eco2) && canonJSON(dat) == canonJSON(dat2)
	if ob["reexport_equal"] == false {
		ob["reexport_diff"] = firstDiff(canonJSON(eco)+canonJSON(dat), canonJSON(eco2)+canonJSON(dat2))
	}
	inv := na.RunInvariants(nctx)
	ob["inv_after_import"] = inv["batch-supply"] + inv["basket-supply"]
	// continue on the imported chain
	r.app.CloseBlock()
	r.app, r.db = na, ndb
}

// tableOfError extracts X from the ORM's "Error in JSON for table X: ..." message.
func tableOfError(msg string) string {
	const pre = "Error in JSON for table "
	i := strings.Index(msg, pre)
	if i < 0 {
		return "?"
	}
	rest := msg[i+len(pre):]
	if j := strings.Index(rest, ":"); j >= 0 {
		return rest[:j]
	}
	return "?"
}

func firstDiff(a, b string) string {
	n := len(a)
	if len(b) < n {
		n = len(b)
	}
	i := 0
	for i < n && a[i] == b[i] {
		i++
	}
	lo := i - 60
	if lo < 0 {
		lo = 0
	}
	hi := func(s string) int {
		if i+60 < len(s) {
			return i + 60
		}
		return len(s)
	}
	return fmt.Sprintf("at %d: %q vs %q", i, a[lo:hi(a)], b[lo:hi(b)])
}

// replicas re-executes the whole behaviour n more times in fresh applications:
// the first replica without any restart, the others with a random subset of the
// block boundaries as restart points.  Logged: the digest sequence of this run
// and of every replica (per block: app hash; per message: code, data, gas, events).
func (r *runner) replicas(ob M, n int) {
	// close the open block so that its hash is part of the comparison
	primary := append([]string{}, r.digests...)
	rng := rand.New(rand.NewSource(r.b.Seed + 99))
	blocks := r.blockSteps // block steps executed so far (behaviour steps and driver steps)
	reps := []any{}
	scheds := []any{}
	for k := 0; k < n; k++ {
		at := map[int]bool{}
		sched := []int{}
		if k > 0 {
			for i := 0; i < blocks; i++ {
				if rng.Intn(2) == 0 {
					at[i] = true
					sched = append(sched, i)
				}
			}
		}
		rr := &runner{b: r.b, replica: true, restartAt: at, drvMsgs: r.drvMsgs}
		func() {
			defer func() {
				if p := recover(); p != nil {
					rr.fatal = fmt.Sprintf("replica panic: %v", p)
				}
			}()
			rr.run()
		}()
		d := rr.digests
		if rr.fatal != "" {
			d = append(d, "fatal:"+rr.fatal)
		}
		// compare the common prefix: the primary has not closed its last block yet
		if len(d) > len(primary) {
			d = d[:len(primary)]
		}
		reps = append(reps, d)
		scheds = append(scheds, sched)
	}
	ob["primary_digests"] = primary
	ob["replica_digests"] = reps
	ob["replica_restarts"] = scheds
}

var _ = bytes.Equal
