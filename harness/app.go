package main

// The application under test: a real baseapp over a MemDB with IAVL stores, the
// real x/auth and x/bank keepers, the real ecocredit module and the real data
// module (or, for forced ID collisions, the data server built through the
// verif-tagged constructor).  Messages run through real ABCI: InitChain,
// BeginBlock, DeliverTx (custom one-message TxDecoder, no ante handler), EndBlock,
// Commit.  Nothing in this file decides anything about a property.

import (
	"crypto/sha256"
	"encoding/hex"
	"encoding/json"
	"fmt"
	"hash"
	"sort"
	"time"

	dbm "github.com/cometbft/cometbft-db"
	abci "github.com/cometbft/cometbft/abci/types"
	"github.com/cometbft/cometbft/libs/log"
	tmproto "github.com/cometbft/cometbft/proto/tendermint/types"

	"github.com/cosmos/cosmos-sdk/baseapp"
	"github.com/cosmos/cosmos-sdk/codec"
	codectypes "github.com/cosmos/cosmos-sdk/codec/types"
	storetypes "github.com/cosmos/cosmos-sdk/store/types"
	sdk "github.com/cosmos/cosmos-sdk/types"
	sdkmodule "github.com/cosmos/cosmos-sdk/types/module"
	authkeeper "github.com/cosmos/cosmos-sdk/x/auth/keeper"
	authtypes "github.com/cosmos/cosmos-sdk/x/auth/types"
	bankkeeper "github.com/cosmos/cosmos-sdk/x/bank/keeper"
	banktypes "github.com/cosmos/cosmos-sdk/x/bank/types"
	govtypes "github.com/cosmos/cosmos-sdk/x/gov/types"
	minttypes "github.com/cosmos/cosmos-sdk/x/mint/types"
	paramstypes "github.com/cosmos/cosmos-sdk/x/params/types"
	gogoproto "github.com/cosmos/gogoproto/proto"

	dataapi "github.com/regen-network/regen-ledger/api/v2/regen/data/v1"
	basketapi "github.com/regen-network/regen-ledger/api/v2/regen/ecocredit/basket/v1"
	marketapi "github.com/regen-network/regen-ledger/api/v2/regen/ecocredit/marketplace/v1"
	baseapi "github.com/regen-network/regen-ledger/api/v2/regen/ecocredit/v1"
	"github.com/regen-network/regen-ledger/types/v2/ormstore"
	"github.com/regen-network/regen-ledger/x/data/v3"
	datamodule "github.com/regen-network/regen-ledger/x/data/v3/module"
	dataserver "github.com/regen-network/regen-ledger/x/data/v3/server"
	"github.com/regen-network/regen-ledger/x/data/v3/server/hasher"
	"github.com/regen-network/regen-ledger/x/ecocredit/v3"
	"github.com/regen-network/regen-ledger/x/ecocredit/v3/basket"
	"github.com/regen-network/regen-ledger/x/ecocredit/v3/marketplace"
	ecomodule "github.com/regen-network/regen-ledger/x/ecocredit/v3/module"
	intertxtypes "github.com/regen-network/regen-ledger/x/intertx/types/v1"

	"github.com/cosmos/cosmos-sdk/orm/model/ormdb"
)

// WeakHash configures the injected ID hasher of the data module: the hash of an
// IRI is looked up in Table (IRI -> bytes); IRIs outside the table hash to Default.
type WeakHash struct {
	MinLen  int              `json:"minlen"`
	HashLen int              `json:"hashlen"`
	Table   map[string][]int `json:"table"`
}

type tableHash struct {
	w   *WeakHash
	buf []byte
}

func (t *tableHash) Write(p []byte) (int, error) { t.buf = append(t.buf, p...); return len(p), nil }
func (t *tableHash) Sum(b []byte) []byte {
	out := make([]byte, t.w.HashLen)
	if v, ok := t.w.Table[string(t.buf)]; ok {
		for i := range out {
			if i < len(v) {
				out[i] = byte(v[i])
			}
		}
	} else {
		s := sha256.Sum256(t.buf)
		copy(out, s[:])
	}
	return append(b, out...)
}
func (t *tableHash) Reset()         { t.buf = nil }
func (t *tableHash) Size() int      { return t.w.HashLen }
func (t *tableHash) BlockSize() int { return 1 }

var _ hash.Hash = (*tableHash)(nil)

type dataKeeper interface {
	data.MsgServer
	data.QueryServer
	dataserver.Keeper
}

// App is one process-lifetime of the node: application objects over a database.
type App struct {
	db   dbm.DB
	ba   *baseapp.BaseApp
	cdc  *codec.ProtoCodec
	reg  codectypes.InterfaceRegistry
	keys map[string]*storetypes.KVStoreKey
	ak   authkeeper.AccountKeeper
	bk   bankkeeper.BaseKeeper
	eco  *ecomodule.Module
	dat  dataKeeper
	dmod *datamodule.Module
	weak *WeakHash
	itx  *intertxEnv

	baseStore   baseapi.StateStore
	basketStore basketapi.StateStore
	marketStore marketapi.StateStore
	dataStore   dataapi.StateStore
	ecoDB       ormdb.ModuleDB
	dataDB      ormdb.ModuleDB

	height    int64
	blockTime time.Time
	inBlock   bool
	header    tmproto.Header

	pendingGenesis *GenesisInput
}

// GenesisInput is what InitChain installs.
type GenesisInput struct {
	Ecocredit json.RawMessage
	Data      json.RawMessage
	Coins     []CoinRow // initial bank balances (minted)
	Time      time.Time
}

type CoinRow struct {
	Addr  sdk.AccAddress
	Denom string
	Amt   sdk.Int
}

var storeNames = []string{authtypes.StoreKey, banktypes.StoreKey, paramstypes.StoreKey, ecocredit.ModuleName, data.ModuleName}

var Authority = authtypes.NewModuleAddress(govtypes.ModuleName)

func init() {
	cfg := sdk.GetConfig()
	cfg.SetBech32PrefixForAccount("regen", "regenpub")
}

// oneMsgTx is the envelope DeliverTx decodes: exactly one message, no fee, no
// signature (no ante handler is installed).
type oneMsgTx struct{ msg sdk.Msg }

func (t oneMsgTx) GetMsgs() []sdk.Msg   { return []sdk.Msg{t.msg} }
func (t oneMsgTx) ValidateBasic() error { return nil }

func NewApp(db dbm.DB, weak *WeakHash) *App {
	a := &App{db: db, weak: weak, keys: map[string]*storetypes.KVStoreKey{}}
	a.reg = codectypes.NewInterfaceRegistry()
	a.cdc = codec.NewProtoCodec(a.reg)
	amino := codec.NewLegacyAmino()
	authtypes.RegisterInterfaces(a.reg)
	banktypes.RegisterInterfaces(a.reg)

	txDecoder := func(bz []byte) (sdk.Tx, error) {
		var any codectypes.Any
		if err := gogoproto.Unmarshal(bz, &any); err != nil {
			return nil, err
		}
		var msg sdk.Msg
		if err := a.reg.UnpackAny(&any, &msg); err != nil {
			return nil, err
		}
		return oneMsgTx{msg}, nil
	}
	a.ba = baseapp.NewBaseApp("verif", log.NewNopLogger(), db, txDecoder, baseapp.SetChainID("verif"))
	a.ba.SetInterfaceRegistry(a.reg)
	for _, n := range storeNames {
		a.keys[n] = sdk.NewKVStoreKey(n)
		a.ba.MountStore(a.keys[n], storetypes.StoreTypeIAVL)
	}
	tkey := sdk.NewTransientStoreKey(paramstypes.TStoreKey)
	a.ba.MountStore(tkey, storetypes.StoreTypeTransient)

	maccPerms := map[string][]string{
		minttypes.ModuleName:       {authtypes.Minter},
		ecocredit.ModuleName:       {authtypes.Burner},
		basket.BasketSubModuleName: {authtypes.Burner, authtypes.Minter},
		marketplace.FeePoolName:    {authtypes.Burner},
	}
	a.ak = authkeeper.NewAccountKeeper(a.cdc, a.keys[authtypes.StoreKey], authtypes.ProtoBaseAccount, maccPerms, "regen", Authority.String())
	// as in app.go: module accounts cannot receive funds through x/bank sends
	blocked := map[string]bool{}
	for acc := range maccPerms {
		blocked[authtypes.NewModuleAddress(acc).String()] = true
	}
	a.bk = bankkeeper.NewBaseKeeper(a.cdc, a.keys[banktypes.StoreKey], a.ak, blocked, Authority.String())

	ecoSubspace := paramstypes.NewSubspace(a.cdc, amino, a.keys[paramstypes.StoreKey], tkey, ecocredit.ModuleName)
	a.eco = ecomodule.NewModule(a.keys[ecocredit.ModuleName], Authority, a.ak, a.bk, ecoSubspace, nil)
	a.eco.RegisterInterfaces(a.reg)
	data.RegisterTypes(a.reg)

	cfg := sdkmodule.NewConfigurator(a.cdc, a.ba.MsgServiceRouter(), a.ba.GRPCQueryRouter())
	a.eco.RegisterServices(cfg)
	banktypes.RegisterMsgServer(cfg.MsgServer(), bankkeeper.NewMsgServerImpl(a.bk))
	intertxtypes.RegisterTypes(a.reg)
	a.itx = newIntertxEnv(a.cdc)
	intertxtypes.RegisterMsgServer(cfg.MsgServer(), a.itx.k)

	if weak == nil {
		a.dmod = datamodule.NewModule(a.keys[data.ModuleName], a.ak, a.bk)
		a.dmod.RegisterServices(cfg)
	} else {
		h, err := hasher.NewHasherWithOptions(hasher.HashOptions{
			NewHash:   func() hash.Hash { return &tableHash{w: weak} },
			MinLength: weak.MinLen,
		})
		if err != nil {
			panic(err)
		}
		a.dat = dataserver.NewServerWithHasher(a.keys[data.ModuleName], a.ak, a.bk, h)
		data.RegisterMsgServer(cfg.MsgServer(), a.dat)
		data.RegisterQueryServer(cfg.QueryServer(), a.dat)
	}

	// typed read-only views of the ORM tables for the projector
	var err error
	a.ecoDB, err = ormstore.NewStoreKeyDB(&ecocredit.ModuleSchema, a.keys[ecocredit.ModuleName], ormdb.ModuleDBOptions{})
	must(err)
	a.baseStore, err = baseapi.NewStateStore(a.ecoDB)
	must(err)
	a.basketStore, err = basketapi.NewStateStore(a.ecoDB)
	must(err)
	a.marketStore, err = marketapi.NewStateStore(a.ecoDB)
	must(err)
	a.dataDB, err = ormstore.NewStoreKeyDB(&data.ModuleSchema, a.keys[data.ModuleName], ormdb.ModuleDBOptions{})
	must(err)
	a.dataStore, err = dataapi.NewStateStore(a.dataDB)
	must(err)

	a.ba.SetInitChainer(a.initChainer)
	a.ba.SetBeginBlocker(func(ctx sdk.Context, req abci.RequestBeginBlock) abci.ResponseBeginBlock {
		a.eco.BeginBlock(ctx, req)
		return abci.ResponseBeginBlock{}
	})
	a.ba.SetEndBlocker(func(ctx sdk.Context, req abci.RequestEndBlock) abci.ResponseEndBlock {
		return abci.ResponseEndBlock{}
	})
	must(a.ba.LoadLatestVersion())
	a.height = a.ba.LastBlockHeight()
	return a
}

func must(err error) {
	if err != nil {
		panic(err)
	}
}

func (a *App) initChainer(ctx sdk.Context, _ abci.RequestInitChain) abci.ResponseInitChain {
	g := a.pendingGenesis
	a.ak.SetParams(ctx, authtypes.DefaultParams()) //nolint:errcheck
	must(a.bk.SetParams(ctx, banktypes.DefaultParams()))
	// make sure the module accounts exist
	for _, n := range []string{minttypes.ModuleName, ecocredit.ModuleName, basket.BasketSubModuleName, marketplace.FeePoolName} {
		a.ak.GetModuleAccount(ctx, n)
	}
	for _, c := range g.Coins {
		coins := sdk.NewCoins(sdk.NewCoin(c.Denom, c.Amt))
		must(a.bk.MintCoins(ctx, minttypes.ModuleName, coins))
		if err := a.bk.SendCoins(ctx, authtypes.NewModuleAddress(minttypes.ModuleName), c.Addr, coins); err != nil {
			panic(err)
		}
	}
	a.eco.InitGenesis(ctx, a.cdc, g.Ecocredit)
	a.dataInitGenesis(ctx, g.Data)
	return abci.ResponseInitChain{}
}

func (a *App) dataInitGenesis(ctx sdk.Context, bz json.RawMessage) {
	if a.dmod != nil {
		a.dmod.InitGenesis(ctx, a.cdc, bz)
		return
	}
	_, err := a.dat.InitGenesis(ctx, a.cdc, bz)
	must(err)
}

func (a *App) dataExportGenesis(ctx sdk.Context) json.RawMessage {
	if a.dmod != nil {
		return a.dmod.ExportGenesis(ctx, a.cdc)
	}
	bz, err := a.dat.ExportGenesis(ctx, a.cdc)
	must(err)
	return bz
}

func (a *App) dataValidateGenesis(bz json.RawMessage) error {
	return datamodule.Module{}.ValidateGenesis(a.cdc, nil, bz)
}

func (a *App) DefaultEcoGenesis() json.RawMessage  { return a.eco.DefaultGenesis(a.cdc) }
func (a *App) DefaultDataGenesis() json.RawMessage { return datamodule.Module{}.DefaultGenesis(a.cdc) }

// InitChain installs the genesis; the first block then starts from its state.
func (a *App) InitChain(g *GenesisInput) (err error) {
	defer func() {
		if r := recover(); r != nil {
			err = fmt.Errorf("InitChain panic: %v", r)
		}
	}()
	a.pendingGenesis = g
	a.ba.InitChain(abci.RequestInitChain{Time: g.Time, ChainId: "verif", InitialHeight: 1})
	a.height = 0
	a.blockTime = g.Time
	a.header = tmproto.Header{ChainID: "verif", Height: 1, Time: g.Time}
	return nil
}

// BeginBlock closes the open block, if any, and starts the next one at time t.
// It reports the app hash of the closed block and whether the block hook panicked.
func (a *App) BeginBlock(t time.Time) (closedHash string, panicked string) {
	closedHash = a.CloseBlock()
	a.height++
	a.blockTime = t
	a.header = tmproto.Header{ChainID: "verif", Height: a.height, Time: t}
	func() {
		defer func() {
			if r := recover(); r != nil {
				panicked = fmt.Sprint(r)
			}
		}()
		a.ba.BeginBlock(abci.RequestBeginBlock{Header: a.header})
	}()
	a.inBlock = true
	return
}

// CloseBlock ends and commits the open block (no-op when none is open).
func (a *App) CloseBlock() string {
	if !a.inBlock {
		return ""
	}
	a.ba.EndBlock(abci.RequestEndBlock{Height: a.height})
	res := a.ba.Commit()
	a.inBlock = false
	return hex.EncodeToString(res.Data)
}

// Ctx reads the state as the next DeliverTx would see it (inside a block), or
// the committed state (between blocks / before the first block).
func (a *App) Ctx() sdk.Context {
	if a.inBlock || a.height == 0 {
		return a.ba.NewContext(false, a.header)
	}
	return a.ba.NewUncachedContext(false, a.header)
}

type DeliverResult struct {
	Code      uint32
	Codespace string
	Log       string
	Data      []byte
	GasUsed   int64
	Events    []abci.Event
	Digest    string // code, data, gas, events
}

func (a *App) Deliver(msg sdk.Msg) DeliverResult {
	any, err := codectypes.NewAnyWithValue(msg)
	must(err)
	bz, err := gogoproto.Marshal(any)
	must(err)
	res := a.ba.DeliverTx(abci.RequestDeliverTx{Tx: bz})
	h := sha256.New()
	fmt.Fprintf(h, "%d|%s|%x|%d|", res.Code, res.Codespace, res.Data, res.GasUsed)
	for _, e := range res.Events {
		fmt.Fprintf(h, "%s{", e.Type)
		for _, at := range e.Attributes {
			fmt.Fprintf(h, "%s=%s;", at.Key, at.Value)
		}
		fmt.Fprintf(h, "}")
	}
	return DeliverResult{Code: res.Code, Codespace: res.Codespace, Log: res.Log, Data: res.Data,
		GasUsed: res.GasUsed, Events: res.Events, Digest: hex.EncodeToString(h.Sum(nil))}
}

// KVDigest hashes every key/value pair of every store as the next message would see them.
func (a *App) KVDigest() string {
	ctx := a.Ctx()
	h := sha256.New()
	names := append([]string{}, storeNames...)
	sort.Strings(names)
	for _, n := range names {
		it := ctx.KVStore(a.keys[n]).Iterator(nil, nil)
		fmt.Fprintf(h, "[%s]", n)
		for ; it.Valid(); it.Next() {
			fmt.Fprintf(h, "%x=%x;", it.Key(), it.Value())
		}
		it.Close()
	}
	return hex.EncodeToString(h.Sum(nil))
}

// recInvariants runs the invariant routes the modules register.
type invRoute struct {
	module, route string
	inv           sdk.Invariant
}
type invRegistry struct{ routes []invRoute }

func (r *invRegistry) RegisterRoute(module, route string, inv sdk.Invariant) {
	r.routes = append(r.routes, invRoute{module, route, inv})
}

func (a *App) RunInvariants(ctx sdk.Context) map[string]string {
	reg := &invRegistry{}
	a.eco.RegisterInvariants(reg)
	out := map[string]string{}
	for _, r := range reg.routes {
		func() {
			defer func() {
				if p := recover(); p != nil {
					out[r.route] = fmt.Sprintf("panic: %v", p)
				}
			}()
			msg, broken := r.inv(ctx)
			if broken {
				out[r.route] = msg
			} else {
				out[r.route] = ""
			}
		}()
	}
	return out
}
