package main

// The fixed vocabulary shared with the specification: account names, the tick
// lattice of time, pools of strings without semantics.

import (
	"fmt"
	"strings"
	"time"

	"github.com/cosmos/cosmos-sdk/crypto/keys/secp256k1"
	sdk "github.com/cosmos/cosmos-sdk/types"
	authtypes "github.com/cosmos/cosmos-sdk/x/auth/types"
	minttypes "github.com/cosmos/cosmos-sdk/x/mint/types"

	"github.com/regen-network/regen-ledger/x/ecocredit/v3"
	"github.com/regen-network/regen-ledger/x/ecocredit/v3/basket"
	"github.com/regen-network/regen-ledger/x/ecocredit/v3/marketplace"
)

var (
	nameToAddr = map[string]sdk.AccAddress{}
	addrToName = map[string]string{}
)

func init() {
	for i := 1; i <= 9; i++ {
		key := secp256k1.GenPrivKeyFromSecret([]byte{byte(i)})
		reg(fmt.Sprintf("a%d", i), sdk.AccAddress(key.PubKey().Address()))
	}
	reg("gov", Authority)
	reg("mod:ecocredit", authtypes.NewModuleAddress(ecocredit.ModuleName))
	reg("mod:basket", authtypes.NewModuleAddress(basket.BasketSubModuleName))
	reg("mod:feepool", authtypes.NewModuleAddress(marketplace.FeePoolName))
	reg("mod:mint", authtypes.NewModuleAddress(minttypes.ModuleName))
}

func reg(name string, addr sdk.AccAddress) {
	nameToAddr[name] = addr
	addrToName[string(addr)] = name
}

// Addr concretises an account name; unknown names are taken as bech32 strings.
func Addr(name string) sdk.AccAddress {
	if a, ok := nameToAddr[name]; ok {
		return a
	}
	a, err := sdk.AccAddressFromBech32(name)
	if err != nil {
		panic(fmt.Sprintf("unknown account %q", name))
	}
	return a
}

// AddrStr renders an account; an upper-case name ("A1") is the all-upper-case
// bech32 spelling of the same account (valid, same signer, different string).
func AddrStr(name string) string {
	if len(name) == 2 && name[0] == 'A' {
		return strings.ToUpper(Addr("a" + name[1:]).String())
	}
	return Addr(name).String()
}

// Name abstracts an address; addresses outside the table keep their bech32 form.
func Name(addr []byte) string {
	if n, ok := addrToName[string(addr)]; ok {
		return n
	}
	return sdk.AccAddress(addr).String()
}

func NameOfBech32(s string) string {
	a, err := sdk.AccAddressFromBech32(s)
	if err != nil {
		return "invalid:" + s
	}
	return Name(a)
}

// tick t = 1969-01-01T00:00:00Z + 73*t days; tick 5 is the Unix epoch.
var tick0 = time.Date(1969, 1, 1, 0, 0, 0, 0, time.UTC)

const tickDur = 73 * 24 * time.Hour

// (calendar arithmetic, not time.Duration: a Duration overflows after 292 years, and batch
// dates may lie in the first millennium)
func TickTime(t int) time.Time { return tick0.AddDate(0, 0, 73*t) }

const tickSecs = int64(73 * 24 * 3600)

// TimeTick abstracts an instant; ok=false when it is not on the lattice.
func TimeTick(x time.Time) (int, bool) {
	d := x.UTC().Unix() - tick0.Unix()
	q := d / tickSecs
	if d%tickSecs != 0 || x.Nanosecond() != 0 {
		if d < 0 && d%tickSecs != 0 {
			q-- // floor
		}
		return int(q), false
	}
	return int(q), true
}

// The MARKET time domain (block times and sell order expirations) may carry a sub-second
// part: with fineSeed != 0 tick t is rendered as TickTime(t) + fineOff(t), a fixed function
// of the tick with 0 < fineOff < 1 s.  Order and equality of ticks are preserved exactly, so
// every comparison the marketplace makes between these instants has the outcome the tick
// model predicts, while real instants are not aligned to whole seconds.  (Not used for batch
// dates and basket criteria, whose window arithmetic mixes block times and dates.)
var fineSeed int64

func fineOff(t int) time.Duration {
	if fineSeed == 0 {
		return 0
	}
	v := (fineSeed*7919 + int64(t)*104729) % 999999998
	if v < 0 {
		v += 999999998
	}
	return time.Duration(v + 1)
}

func MarketTime(t int) time.Time { return TickTime(t).Add(fineOff(t)) }

func MarketTick(x time.Time) (int, bool) {
	x = x.UTC()
	t, ok := TimeTick(x)
	if ok {
		return t, fineSeed == 0 || true // an aligned instant is on the lattice in both modes
	}
	if fineSeed != 0 && x.Sub(TickTime(t)) == fineOff(t) {
		return t, true
	}
	return t, false
}
