package main

// The projector: reads every ORM table of the ecocredit module and the bank
// balances/supplies through read-only views and renders them in the vocabulary
// of the specification (spec/Types.tla).  Amount leaves are *Amt values that are
// normalised to small naturals once the whole trace is known (normalise.go).

import (
	"bytes"
	"context"
	"encoding/json"
	"fmt"
	ecobase "github.com/regen-network/regen-ledger/x/ecocredit/v3/base"
	"math/big"
	"sort"
	"strings"

	sdk "github.com/cosmos/cosmos-sdk/types"
	banktypes "github.com/cosmos/cosmos-sdk/x/bank/types"
	"google.golang.org/protobuf/proto"
	"google.golang.org/protobuf/types/known/timestamppb"

	basketapi "github.com/regen-network/regen-ledger/api/v2/regen/ecocredit/basket/v1"
	marketapi "github.com/regen-network/regen-ledger/api/v2/regen/ecocredit/marketplace/v1"
	baseapi "github.com/regen-network/regen-ledger/api/v2/regen/ecocredit/v1"
)

// ---------------------------------------------------------------- amounts

// Amt is a credit amount (decimal string of the chain) or a basket-token amount
// (integer string): both are counted in micro-credits = 10^-6 credits, the
// precision every credit type is locked to.  N is filled by the normaliser.
type Amt struct {
	Raw   string
	Micro *big.Int // nil when Raw is not an exact number of micro-credits
	Bad   string   // why Raw is malformed ("" = well formed)
	N     int64
}

func (a *Amt) MarshalJSON() ([]byte, error) { return json.Marshal(a.N) }

var micro = big.NewInt(1_000_000)

// CreditAmt parses a stored / requested credit amount.  "" counts as 0 (that is
// how the chain's decimal parser reads it).
func CreditAmt(raw string) *Amt {
	a := &Amt{Raw: raw}
	s := raw
	if s == "" {
		s = "0"
	}
	r, ok := new(big.Rat).SetString(s)
	if !ok || strings.ContainsAny(s, "/ ") {
		a.Bad = "unparsable"
		a.Micro = big.NewInt(0)
		return a
	}
	if r.Sign() < 0 {
		a.Bad = "negative"
	}
	m := new(big.Rat).Mul(r, new(big.Rat).SetInt(micro))
	if !m.IsInt() {
		if a.Bad == "" {
			a.Bad = "more than 6 decimal places"
		}
		// floor, so that the trace can still be written
		q := new(big.Int).Quo(m.Num(), m.Denom())
		a.Micro = q
		return a
	}
	a.Micro = new(big.Int).Set(m.Num())
	if a.Bad == "" && decimalPlaces(s) > 6 {
		a.Bad = "more than 6 decimal places"
	}
	return a
}

// decimalPlaces counts the places the chain's Dec would report (-exponent).
func decimalPlaces(s string) int {
	mant, exp := s, 0
	if i := strings.IndexAny(s, "eE"); i >= 0 {
		mant = s[:i]
		fmt.Sscanf(s[i+1:], "%d", &exp)
	}
	frac := 0
	if i := strings.Index(mant, "."); i >= 0 {
		frac = len(mant) - i - 1
	}
	p := frac - exp
	if p < 0 {
		p = 0
	}
	return p
}

// TokenAmt is an amount of basket tokens (1 token = 1 micro-credit).
func TokenAmt(i sdk.Int) *Amt {
	return &Amt{Raw: i.String(), Micro: new(big.Int).Set(i.BigInt())}
}

// ---------------------------------------------------------------- state rows

type OptTime struct {
	Set bool `json:"set"`
	T   int  `json:"t"`
}

type OptCoin struct {
	Set   bool   `json:"set"`
	Denom string `json:"denom"`
	Amt   int64  `json:"amt"`
}

type RateJ struct {
	Kind string `json:"kind"`
	Num  int64  `json:"num"`
	Den  int64  `json:"den"`
}

type CritJ struct {
	Kind string `json:"kind"`
	V    int    `json:"v"`
}

type State struct {
	Now  int `json:"now"`
	Unit struct {
		Un int64 `json:"un"`
		Ud int64 `json:"ud"`
	} `json:"unit"`
	Ctypes    []map[string]any `json:"ctypes"`
	Classes   []map[string]any `json:"classes"`
	Issuers   []map[string]any `json:"issuers"`
	Projects  []map[string]any `json:"projects"`
	Batches   []map[string]any `json:"batches"`
	Cseq      []map[string]any `json:"cseq"`
	Pseq      []map[string]any `json:"pseq"`
	Bseq      []map[string]any `json:"bseq"`
	Bal       []map[string]any `json:"bal"`
	Supply    []map[string]any `json:"supply"`
	Origintx  []map[string]any `json:"origintx"`
	Contracts []map[string]any `json:"contracts"`
	Allowlist bool             `json:"allowlist"`
	Creators  []string         `json:"creators"`
	Classfee  OptCoin          `json:"classfee"`
	Chains    []string         `json:"chains"`
	Baskets   []map[string]any `json:"baskets"`
	Bclasses  []map[string]any `json:"bclasses"`
	Bbal      []map[string]any `json:"bbal"`
	Basketfee OptCoin          `json:"basketfee"`
	Orders    []map[string]any `json:"orders"`
	Markets   []map[string]any `json:"markets"`
	Denoms    []map[string]any `json:"denoms"`
	Feeparams struct {
		Buyer  RateJ `json:"buyer"`
		Seller RateJ `json:"seller"`
	} `json:"feeparams"`
	Seq     map[string]int64 `json:"seq"`
	Coins   []map[string]any `json:"coins"`
	Csupply []map[string]any `json:"csupply"`
}

// Notes collects what the projector could not express in the vocabulary of the
// specification: malformed amount strings, instants off the tick lattice, rows
// of tables the specification has no counterpart for.
type Notes struct {
	Malformed  []string `json:"malformed"`
	OffLattice []string `json:"offlattice"`
	Extra      []string `json:"extra"`
	Overflow   []string `json:"overflow"`
	IDCheck    []string `json:"idcheck"` // stored ids rejected by the chain's own validators, or parsed into other parents
}

type projector struct {
	a       *App
	ctx     sdk.Context
	notes   *Notes
	bdenoms map[string]bool
}

func (p *projector) amt(where, raw string) *Amt {
	a := CreditAmt(raw)
	if a.Bad != "" {
		p.notes.Malformed = append(p.notes.Malformed, fmt.Sprintf("%s=%q (%s)", where, raw, a.Bad))
	}
	return a
}

func (p *projector) tick(where string, ts *timestamppb.Timestamp) int {
	if ts == nil {
		p.notes.OffLattice = append(p.notes.OffLattice, where+"=nil")
		return -999
	}
	t, ok := TimeTick(ts.AsTime())
	if !ok {
		p.notes.OffLattice = append(p.notes.OffLattice, fmt.Sprintf("%s=%s", where, ts.AsTime()))
	}
	return t
}

// marketOptTick: an optional instant of the market time domain (sell order expiration)
func (p *projector) marketOptTick(where string, ts *timestamppb.Timestamp) OptTime {
	if ts == nil {
		return OptTime{}
	}
	t, ok := MarketTick(ts.AsTime())
	if !ok {
		p.notes.OffLattice = append(p.notes.OffLattice, fmt.Sprintf("%s=%s", where, ts.AsTime()))
	}
	return OptTime{Set: true, T: t}
}

func (p *projector) optTick(where string, ts *timestamppb.Timestamp) OptTime {
	if ts == nil {
		return OptTime{}
	}
	return OptTime{Set: true, T: p.tick(where, ts)}
}

func (p *projector) small(where string, i sdk.Int) int64 {
	if !i.IsInt64() || i.Int64() > 1<<30 || i.Int64() < -(1<<30) {
		p.notes.Overflow = append(p.notes.Overflow, fmt.Sprintf("%s=%s", where, i))
		return 0
	}
	return i.Int64()
}

// rate classifies a stored fee rate string.
func (p *projector) rate(where, s string) RateJ {
	if s == "" {
		return RateJ{Kind: "empty", Num: 0, Den: 1}
	}
	r, ok := new(big.Rat).SetString(s)
	if !ok {
		p.notes.Malformed = append(p.notes.Malformed, fmt.Sprintf("%s=%q", where, s))
		return RateJ{Kind: "bad", Num: 0, Den: 1}
	}
	if r.Sign() == 0 {
		return RateJ{Kind: "zero", Num: 0, Den: 1}
	}
	if r.Sign() < 0 {
		p.notes.Malformed = append(p.notes.Malformed, fmt.Sprintf("%s=%q", where, s))
		return RateJ{Kind: "neg", Num: 0, Den: 1}
	}
	if !r.Num().IsInt64() || !r.Denom().IsInt64() || r.Num().Int64() > 1000 || r.Denom().Int64() > 1000 {
		p.notes.Overflow = append(p.notes.Overflow, fmt.Sprintf("%s=%q", where, s))
		return RateJ{Kind: "pos", Num: 1, Den: 1}
	}
	return RateJ{Kind: "pos", Num: r.Num().Int64(), Den: r.Denom().Int64()}
}

func (p *projector) seqOf(msg proto.Message) int64 {
	t := p.a.ecoDB.GetTable(msg)
	var buf bytes.Buffer
	must(t.ExportJSON(p.ctx, &buf))
	var arr []json.RawMessage
	must(json.Unmarshal(buf.Bytes(), &arr))
	if len(arr) == 0 {
		return 0
	}
	var n uint64
	if err := json.Unmarshal(arr[0], &n); err != nil {
		return 0
	}
	return int64(n)
}

func (p *projector) seqOfData(msg proto.Message) int64 {
	t := p.a.dataDB.GetTable(msg)
	var buf bytes.Buffer
	must(t.ExportJSON(p.ctx, &buf))
	var arr []json.RawMessage
	must(json.Unmarshal(buf.Bytes(), &arr))
	if len(arr) == 0 {
		return 0
	}
	var n uint64
	if err := json.Unmarshal(arr[0], &n); err != nil {
		return 0
	}
	return int64(n)
}

// ProjectEco renders the whole ecocredit + bank state.
func (a *App) ProjectEco(ctx sdk.Context) (*State, *Notes) {
	n := &Notes{Malformed: []string{}, OffLattice: []string{}, Extra: []string{}, Overflow: []string{}, IDCheck: []string{}}
	p := &projector{a: a, ctx: ctx, notes: n, bdenoms: map[string]bool{}}
	s := &State{}
	var c context.Context = ctx
	now, ok := MarketTick(ctx.BlockTime())
	if !ok {
		n.OffLattice = append(n.OffLattice, "blocktime")
	}
	s.Now = now

	bs := a.baseStore
	s.Ctypes = []map[string]any{}
	{
		it, err := bs.CreditTypeTable().List(c, baseapi.CreditTypePrimaryKey{})
		must(err)
		for it.Next() {
			v, err := it.Value()
			must(err)
			s.Ctypes = append(s.Ctypes, map[string]any{"abbr": v.Abbreviation, "name": v.Name, "unit": v.Unit, "prec": v.Precision})
		}
		it.Close()
	}
	s.Classes = []map[string]any{}
	{
		it, err := bs.ClassTable().List(c, baseapi.ClassPrimaryKey{})
		must(err)
		for it.Next() {
			v, err := it.Value()
			must(err)
			s.Classes = append(s.Classes, map[string]any{"key": v.Key, "id": v.Id, "admin": Name(v.Admin), "meta": v.Metadata, "ct": v.CreditTypeAbbrev})
		}
		it.Close()
	}
	s.Issuers = []map[string]any{}
	{
		it, err := bs.ClassIssuerTable().List(c, baseapi.ClassIssuerPrimaryKey{})
		must(err)
		for it.Next() {
			v, err := it.Value()
			must(err)
			s.Issuers = append(s.Issuers, map[string]any{"ck": v.ClassKey, "a": Name(v.Issuer)})
		}
		it.Close()
	}
	s.Projects = []map[string]any{}
	{
		it, err := bs.ProjectTable().List(c, baseapi.ProjectPrimaryKey{})
		must(err)
		for it.Next() {
			v, err := it.Value()
			must(err)
			s.Projects = append(s.Projects, map[string]any{"key": v.Key, "id": v.Id, "admin": Name(v.Admin), "ck": v.ClassKey,
				"jur": v.Jurisdiction, "meta": v.Metadata, "ref": v.ReferenceId})
		}
		it.Close()
	}
	s.Batches = []map[string]any{}
	{
		it, err := bs.BatchTable().List(c, baseapi.BatchPrimaryKey{})
		must(err)
		for it.Next() {
			v, err := it.Value()
			must(err)
			w := "batch " + v.Denom
			s.Batches = append(s.Batches, map[string]any{"key": v.Key, "issuer": Name(v.Issuer), "pk": v.ProjectKey, "denom": v.Denom,
				"meta": v.Metadata, "start": p.tick(w+" start", v.StartDate), "end": p.tick(w+" end", v.EndDate),
				"issued": p.marketOptTick(w+" issuance", v.IssuanceDate).T, "open": v.Open, "ck": v.ClassKey}) // the issuance date is a block time
		}
		it.Close()
	}
	// C14: every stored id is accepted by the chain's own validators, and its parsers recover
	// the ids of the parents the row references
	{
		classByKey, projByKey := map[uint64]map[string]any{}, map[uint64]map[string]any{}
		for _, c := range s.Classes {
			classByKey[c["key"].(uint64)] = c
			id := c["id"].(string)
			if err := ecobase.ValidateClassID(id); err != nil {
				n.IDCheck = append(n.IDCheck, "class "+id+": "+err.Error())
			} else if ct := ecobase.GetCreditTypeAbbrevFromClassID(id); ct != c["ct"].(string) {
				n.IDCheck = append(n.IDCheck, "class "+id+": parsed credit type "+ct)
			}
		}
		for _, pr := range s.Projects {
			projByKey[pr["key"].(uint64)] = pr
			id := pr["id"].(string)
			if err := ecobase.ValidateProjectID(id); err != nil {
				n.IDCheck = append(n.IDCheck, "project "+id+": "+err.Error())
			} else if c, ok := classByKey[pr["ck"].(uint64)]; ok && ecobase.GetClassIDFromProjectID(id) != c["id"].(string) {
				n.IDCheck = append(n.IDCheck, "project "+id+": parsed class "+ecobase.GetClassIDFromProjectID(id))
			}
		}
		for _, b := range s.Batches {
			dn := b["denom"].(string)
			if err := ecobase.ValidateBatchDenom(dn); err != nil {
				n.IDCheck = append(n.IDCheck, "batch "+dn+": "+err.Error())
			} else if pr, ok := projByKey[b["pk"].(uint64)]; ok {
				if ecobase.GetProjectIDFromBatchDenom(dn) != pr["id"].(string) {
					n.IDCheck = append(n.IDCheck, "batch "+dn+": parsed project "+ecobase.GetProjectIDFromBatchDenom(dn))
				}
				if c, ok := classByKey[pr["ck"].(uint64)]; ok && ecobase.GetClassIDFromBatchDenom(dn) != c["id"].(string) {
					n.IDCheck = append(n.IDCheck, "batch "+dn+": parsed class "+ecobase.GetClassIDFromBatchDenom(dn))
				}
			}
		}
	}
	s.Cseq = []map[string]any{}
	{
		it, err := bs.ClassSequenceTable().List(c, baseapi.ClassSequencePrimaryKey{})
		must(err)
		for it.Next() {
			v, err := it.Value()
			must(err)
			s.Cseq = append(s.Cseq, map[string]any{"ct": v.CreditTypeAbbrev, "next": v.NextSequence})
		}
		it.Close()
	}
	s.Pseq = []map[string]any{}
	{
		it, err := bs.ProjectSequenceTable().List(c, baseapi.ProjectSequencePrimaryKey{})
		must(err)
		for it.Next() {
			v, err := it.Value()
			must(err)
			s.Pseq = append(s.Pseq, map[string]any{"ck": v.ClassKey, "next": v.NextSequence})
		}
		it.Close()
	}
	s.Bseq = []map[string]any{}
	{
		it, err := bs.BatchSequenceTable().List(c, baseapi.BatchSequencePrimaryKey{})
		must(err)
		for it.Next() {
			v, err := it.Value()
			must(err)
			s.Bseq = append(s.Bseq, map[string]any{"pk": v.ProjectKey, "next": v.NextSequence})
		}
		it.Close()
	}
	s.Bal = []map[string]any{}
	{
		it, err := bs.BatchBalanceTable().List(c, baseapi.BatchBalancePrimaryKey{})
		must(err)
		for it.Next() {
			v, err := it.Value()
			must(err)
			w := fmt.Sprintf("balance[%s,%d]", Name(v.Address), v.BatchKey)
			s.Bal = append(s.Bal, map[string]any{"a": Name(v.Address), "bk": v.BatchKey,
				"t": p.amt(w+".tradable", v.TradableAmount), "r": p.amt(w+".retired", v.RetiredAmount), "e": p.amt(w+".escrowed", v.EscrowedAmount)})
		}
		it.Close()
	}
	s.Supply = []map[string]any{}
	{
		it, err := bs.BatchSupplyTable().List(c, baseapi.BatchSupplyPrimaryKey{})
		must(err)
		for it.Next() {
			v, err := it.Value()
			must(err)
			w := fmt.Sprintf("supply[%d]", v.BatchKey)
			s.Supply = append(s.Supply, map[string]any{"bk": v.BatchKey,
				"t": p.amt(w+".tradable", v.TradableAmount), "r": p.amt(w+".retired", v.RetiredAmount), "c": p.amt(w+".cancelled", v.CancelledAmount)})
		}
		it.Close()
	}
	s.Origintx = []map[string]any{}
	{
		it, err := bs.OriginTxIndexTable().List(c, baseapi.OriginTxIndexPrimaryKey{})
		must(err)
		for it.Next() {
			v, err := it.Value()
			must(err)
			s.Origintx = append(s.Origintx, map[string]any{"ck": v.ClassKey, "id": abstractTx(v.Id), "src": v.Source})
		}
		it.Close()
	}
	s.Contracts = []map[string]any{}
	{
		it, err := bs.BatchContractTable().List(c, baseapi.BatchContractPrimaryKey{})
		must(err)
		for it.Next() {
			v, err := it.Value()
			must(err)
			s.Contracts = append(s.Contracts, map[string]any{"bk": v.BatchKey, "ck": v.ClassKey, "contract": abstractContract(v.Contract)})
		}
		it.Close()
	}
	{
		v, err := bs.ClassCreatorAllowlistTable().Get(c)
		must(err)
		s.Allowlist = v.Enabled
	}
	s.Creators = []string{}
	{
		it, err := bs.AllowedClassCreatorTable().List(c, baseapi.AllowedClassCreatorPrimaryKey{})
		must(err)
		for it.Next() {
			v, err := it.Value()
			must(err)
			s.Creators = append(s.Creators, Name(v.Address))
		}
		it.Close()
	}
	{
		v, err := bs.ClassFeeTable().Get(c)
		must(err)
		if v.Fee != nil {
			amt, ok := sdk.NewIntFromString(v.Fee.Amount)
			if !ok {
				n.Malformed = append(n.Malformed, "classfee="+v.Fee.Amount)
				amt = sdk.ZeroInt()
			}
			s.Classfee = OptCoin{Set: true, Denom: v.Fee.Denom, Amt: p.small("classfee", amt)}
		}
	}
	s.Chains = []string{}
	{
		it, err := bs.AllowedBridgeChainTable().List(c, baseapi.AllowedBridgeChainPrimaryKey{})
		must(err)
		for it.Next() {
			v, err := it.Value()
			must(err)
			s.Chains = append(s.Chains, v.ChainName)
		}
		it.Close()
	}
	{
		it, err := bs.ProjectEnrollmentTable().List(c, baseapi.ProjectEnrollmentPrimaryKey{})
		must(err)
		for it.Next() {
			v, err := it.Value()
			must(err)
			n.Extra = append(n.Extra, fmt.Sprintf("project-enrollment[%d,%d]", v.ProjectKey, v.ClassKey))
		}
		it.Close()
		pf, err := bs.ProjectFeeTable().Get(c)
		must(err)
		if pf.Fee != nil {
			n.Extra = append(n.Extra, "project-fee="+pf.Fee.Amount+pf.Fee.Denom)
		}
	}

	// ---- basket
	ks := a.basketStore
	s.Baskets = []map[string]any{}
	{
		it, err := ks.BasketTable().List(c, basketapi.BasketPrimaryKey{})
		must(err)
		for it.Next() {
			v, err := it.Value()
			must(err)
			p.bdenoms[v.BasketDenom] = true
			s.Baskets = append(s.Baskets, map[string]any{"id": v.Id, "denom": v.BasketDenom, "name": v.Name, "dar": v.DisableAutoRetire,
				"ct": v.CreditTypeAbbrev, "crit": p.crit("basket "+v.Name, v.DateCriteria), "curator": Name(v.Curator)})
			if v.Exponent != 6 {
				n.Extra = append(n.Extra, fmt.Sprintf("basket %s exponent=%d", v.Name, v.Exponent))
			}
		}
		it.Close()
	}
	s.Bclasses = []map[string]any{}
	{
		it, err := ks.BasketClassTable().List(c, basketapi.BasketClassPrimaryKey{})
		must(err)
		for it.Next() {
			v, err := it.Value()
			must(err)
			s.Bclasses = append(s.Bclasses, map[string]any{"bid": v.BasketId, "cid": v.ClassId})
		}
		it.Close()
	}
	s.Bbal = []map[string]any{}
	{
		it, err := ks.BasketBalanceTable().List(c, basketapi.BasketBalancePrimaryKey{})
		must(err)
		for it.Next() {
			v, err := it.Value()
			must(err)
			w := fmt.Sprintf("basket-balance[%d,%s]", v.BasketId, v.BatchDenom)
			s.Bbal = append(s.Bbal, map[string]any{"bid": v.BasketId, "denom": v.BatchDenom, "amt": p.amt(w, v.Balance),
				"start": p.tick(w+" start", v.BatchStartDate)})
		}
		it.Close()
	}
	{
		v, err := ks.BasketFeeTable().Get(c)
		must(err)
		if v.Fee != nil {
			amt, ok := sdk.NewIntFromString(v.Fee.Amount)
			if !ok {
				n.Malformed = append(n.Malformed, "basketfee="+v.Fee.Amount)
				amt = sdk.ZeroInt()
			}
			s.Basketfee = OptCoin{Set: true, Denom: v.Fee.Denom, Amt: p.small("basketfee", amt)}
		}
	}

	// ---- marketplace
	ms := a.marketStore
	s.Orders = []map[string]any{}
	{
		it, err := ms.SellOrderTable().List(c, marketapi.SellOrderPrimaryKey{})
		must(err)
		for it.Next() {
			v, err := it.Value()
			must(err)
			w := fmt.Sprintf("order[%d]", v.Id)
			ask, ok := sdk.NewIntFromString(v.AskAmount)
			if !ok {
				n.Malformed = append(n.Malformed, w+".ask="+v.AskAmount)
				ask = sdk.ZeroInt()
			}
			s.Orders = append(s.Orders, map[string]any{"id": v.Id, "seller": Name(v.Seller), "bk": v.BatchKey, "qty": p.amt(w+".quantity", v.Quantity),
				"mid": v.MarketId, "ask": p.small(w+".ask", ask), "dar": v.DisableAutoRetire, "exp": p.marketOptTick(w+" expiration", v.Expiration), "maker": v.Maker})
		}
		it.Close()
	}
	s.Markets = []map[string]any{}
	{
		it, err := ms.MarketTable().List(c, marketapi.MarketPrimaryKey{})
		must(err)
		for it.Next() {
			v, err := it.Value()
			must(err)
			s.Markets = append(s.Markets, map[string]any{"id": v.Id, "ct": v.CreditTypeAbbrev, "denom": v.BankDenom})
			if v.PrecisionModifier != 0 {
				n.Extra = append(n.Extra, fmt.Sprintf("market %d precision modifier %d", v.Id, v.PrecisionModifier))
			}
		}
		it.Close()
	}
	s.Denoms = []map[string]any{}
	{
		it, err := ms.AllowedDenomTable().List(c, marketapi.AllowedDenomPrimaryKey{})
		must(err)
		for it.Next() {
			v, err := it.Value()
			must(err)
			s.Denoms = append(s.Denoms, map[string]any{"bank": v.BankDenom, "display": v.DisplayDenom, "exp": v.Exponent})
		}
		it.Close()
	}
	{
		v, err := ms.FeeParamsTable().Get(c)
		must(err)
		s.Feeparams.Buyer = p.rate("buyer fee rate", v.BuyerPercentageFee)
		s.Feeparams.Seller = p.rate("seller fee rate", v.SellerPercentageFee)
	}
	s.Seq = map[string]int64{
		"class":   p.seqOf(&baseapi.Class{}),
		"project": p.seqOf(&baseapi.Project{}),
		"batch":   p.seqOf(&baseapi.Batch{}),
		"basket":  p.seqOf(&basketapi.Basket{}),
		"order":   p.seqOf(&marketapi.SellOrder{}),
		"market":  p.seqOf(&marketapi.Market{}),
	}

	// ---- bank
	s.Coins = []map[string]any{}
	a.bk.IterateAllBalances(ctx, func(addr sdk.AccAddress, coin sdk.Coin) bool {
		if coin.IsZero() {
			n.Extra = append(n.Extra, "zero bank balance row "+Name(addr)+" "+coin.Denom)
			return false
		}
		row := map[string]any{"a": Name(addr), "d": coin.Denom}
		if p.bdenoms[coin.Denom] {
			row["n"] = TokenAmt(coin.Amount)
		} else {
			row["n"] = p.small("coins["+Name(addr)+","+coin.Denom+"]", coin.Amount)
		}
		s.Coins = append(s.Coins, row)
		return false
	})
	s.Csupply = []map[string]any{}
	a.bk.IterateTotalSupply(ctx, func(coin sdk.Coin) bool {
		if coin.IsZero() {
			return false
		}
		row := map[string]any{"d": coin.Denom}
		if p.bdenoms[coin.Denom] {
			row["n"] = TokenAmt(coin.Amount)
		} else {
			row["n"] = p.small("supply["+coin.Denom+"]", coin.Amount)
		}
		s.Csupply = append(s.Csupply, row)
		return false
	})
	sort.Strings(s.Creators)
	sort.Strings(s.Chains)
	_ = banktypes.ModuleName
	return s, n
}

func (p *projector) crit(where string, d *basketapi.DateCriteria) CritJ {
	if d == nil {
		return CritJ{Kind: "none"}
	}
	switch {
	case d.MinStartDate != nil:
		return CritJ{Kind: "min", V: p.tick(where+" min_start_date", d.MinStartDate)}
	case d.StartDateWindow != nil:
		dur := d.StartDateWindow.AsDuration()
		if dur%tickDur != 0 {
			p.notes.OffLattice = append(p.notes.OffLattice, fmt.Sprintf("%s window=%s", where, dur))
		}
		return CritJ{Kind: "window", V: int(dur / tickDur)}
	case d.YearsInThePast != 0:
		return CritJ{Kind: "years", V: int(d.YearsInThePast)}
	}
	return CritJ{Kind: "none"}
}
