package main

// The code-led driver: a seeded random generator of abstract messages that looks
// at the REAL projected state (existing batches, orders, balances, baskets) and
// reaches inputs outside TLC's finite message domains: longer lists, duplicate
// entries, sender = recipient, boundary dates, unusual decimal renderings
// (leading zeros, scientific notation, padded fractions, over-precise, negative,
// NaN), the smallest unit next to whole credits.  Its steps carry dom = "driver":
// the "must succeed" clauses are not applied to them, everything else is.

import (
	"fmt"
	"math/big"
	"math/rand"
)

type driver struct {
	rng  *rand.Rand
	st   *State
	keyD map[uint64]string // batch key -> denom
}

var driverUsers = []string{"a1", "a2", "a3", "a4"}

func (d *driver) user() string { return driverUsers[d.rng.Intn(len(driverUsers))] }
func (d *driver) pick(xs []string) string {
	if len(xs) == 0 {
		return ""
	}
	return xs[d.rng.Intn(len(xs))]
}

func (d *driver) denoms() []string {
	out := []string{}
	for _, b := range d.st.Batches {
		out = append(out, b["denom"].(string))
	}
	return out
}

func (d *driver) denomOrBad() string {
	ds := d.denoms()
	if len(ds) == 0 || d.rng.Intn(12) == 0 {
		return "C09-001-19700315-19700527-001"
	}
	return d.pick(ds)
}

// tradable balance (in micro-credits) of a for batch denom
func (d *driver) tradable(a, denom string) *big.Int {
	for _, r := range d.st.Bal {
		if r["a"] == a && d.keyD[r["bk"].(uint64)] == denom {
			return r["t"].(*Amt).Micro
		}
	}
	return big.NewInt(0)
}

// holders of tradable credits: (account, denom) pairs
func (d *driver) holders() [][2]string {
	var out [][2]string
	for _, r := range d.st.Bal {
		if r["t"].(*Amt).Micro.Sign() > 0 {
			if dn, ok := d.keyD[r["bk"].(uint64)]; ok {
				out = append(out, [2]string{r["a"].(string), dn})
			}
		}
	}
	return out
}

func microString(m *big.Int) string {
	q, r := new(big.Int).QuoRem(m, micro, new(big.Int))
	s := q.String()
	if r.Sign() != 0 {
		f := fmt.Sprintf("%06d", r.Int64())
		for len(f) > 0 && f[len(f)-1] == '0' {
			f = f[:len(f)-1]
		}
		s += "." + f
	}
	return s
}

// amount returns a raw decimal string around `max` micro-credits and whether it
// is a form every handler must reject.
func (d *driver) amount(max *big.Int) (raw string, wf bool) {
	base := big.NewInt(0)
	switch d.rng.Intn(8) {
	case 0:
		base.Set(max) // everything
	case 1:
		base.Add(max, big.NewInt(1)) // one unit too much
	case 2:
		base.SetInt64(1) // the smallest unit
	case 3:
		base.Quo(max, big.NewInt(2))
	case 4:
		base.SetInt64(int64(d.rng.Intn(4)) * 250000)
	default:
		base.SetInt64(int64(1+d.rng.Intn(3)) * 1000000)
	}
	s := microString(base)
	switch d.rng.Intn(24) {
	case 0:
		return "0" + s, true // leading zero
	case 1:
		return "+" + s, true
	case 2:
		return base.String() + "e-6", true
	case 3:
		q, r := new(big.Int).QuoRem(base, micro, new(big.Int))
		return fmt.Sprintf("%s.%06d", q, r.Int64()), true // padded
	case 4:
		return "-" + s, false
	case 5: // more than 6 decimal places
		q, r := new(big.Int).QuoRem(base, micro, new(big.Int))
		return fmt.Sprintf("%s.%06d1", q, r.Int64()), false
	case 6:
		return "NaN", false
	case 8: // seven decimal places, the excess digit is zero
		q, r := new(big.Int).QuoRem(base, micro, new(big.Int))
		return fmt.Sprintf("%s.%06d0", q, r.Int64()), false
	case 7:
		return "1e-7", false
	}
	return s, true
}

func (d *driver) credits(owner string, n int, zeroOK bool) []any {
	out := []any{}
	for i := 0; i < n; i++ {
		dn := d.denomOrBad()
		raw, wf := d.amount(d.tradable(owner, dn))
		_ = wf
		out = append(out, M{"denom": dn, "amt": 0, "amt_raw": raw})
	}
	return out
}

// wfOf says whether every raw amount of the message is a form the handlers accept
// (non-negative, at most 6 decimal places, a number); positive where required.
func wfAmounts(m any, positive bool) bool {
	ok := true
	var walk func(v any)
	walk = func(v any) {
		switch x := v.(type) {
		case map[string]any:
			for k, e := range x {
				if len(k) > 4 && k[len(k)-4:] == "_raw" {
					a := CreditAmt(e.(string))
					if a.Bad != "" {
						ok = false
					}
					if positive && a.Micro.Sign() <= 0 {
						ok = false
					}
				}
				walk(e)
			}
		case []any:
			for _, e := range x {
				walk(e)
			}
		}
	}
	walk(m)
	return ok
}

// boundaryString returns a metadata string around the 256-BYTE limit and whether it
// is within the limit (the limit is in bytes; multi-byte characters count fully).
func (d *driver) boundaryString() (string, bool) {
	rep := func(s string, n int) string {
		out := ""
		for i := 0; i < n; i++ {
			out += s
		}
		return out
	}
	switch d.rng.Intn(8) {
	case 0:
		return "m1", true
	case 1:
		return rep("x", 256), true
	case 2:
		return rep("x", 257), false
	case 3:
		return rep("\u00e9", 128), true // 256 bytes
	case 4:
		return rep("\u00e9", 129), false // 129 characters, 258 bytes
	case 5:
		return rep("\u00e9", 200), false // 200 characters, 400 bytes
	case 6:
		return "", true
	default:
		return "regen:\u65e5\u672c.rdf", true
	}
}

// askAmt: mostly 1..9, sometimes exactly 0 (must be rejected)
func askAmt(rng *rand.Rand) int {
	if rng.Intn(10) == 0 {
		return 0
	}
	return 1 + rng.Intn(9)
}

func optExp(set bool, t int) M { return M{"set": set, "t": t} }

// next proposes the next abstract message.
func (d *driver) next(st *State) M {
	d.st = st
	d.keyD = map[uint64]string{}
	for _, b := range st.Batches {
		d.keyD[b["key"].(uint64)] = b["denom"].(string)
	}
	hs := d.holders()
	who := func() (string, string) {
		if len(hs) > 0 && d.rng.Intn(5) != 0 {
			h := hs[d.rng.Intn(len(hs))]
			return h[0], h[1]
		}
		return d.user(), d.denomOrBad()
	}
	nlist := 1 + d.rng.Intn(3)
	if d.rng.Intn(4) != 0 {
		nlist = 1
	}
	var m M
	switch w := d.rng.Intn(100); {
	case w < 3: // governance: allowed denoms come and go
		if d.rng.Intn(2) == 0 && len(st.Denoms) > 0 {
			return M{"type": "RemoveAllowedDenom", "authority": "gov", "denom": st.Denoms[d.rng.Intn(len(st.Denoms))]["bank"], "dom": "driver"}
		}
		dn := []string{"uregen", "uatom", "ufoo"}[d.rng.Intn(3)]
		return M{"type": "AddAllowedDenom", "authority": "gov", "bank": dn, "display": dn, "exp": 6, "dom": "driver"}
	case w < 6:
		t := st.Now + d.rng.Intn(3)
		if t > 19 {
			t = 19
		}
		return M{"type": "BeginBlock", "t": t, "dom": "driver"}
	case w < 16: // CreateBatch
		iss := []any{}
		for i := 0; i < nlist; i++ {
			tr, _ := d.amount(big.NewInt(3000000))
			rr, _ := d.amount(big.NewInt(1000000))
			if d.rng.Intn(3) == 0 {
				rr = "0"
			}
			iss = append(iss, M{"to": d.user(), "t": 0, "t_raw": tr, "r": 0, "r_raw": rr})
		}
		pid := "C01-001"
		if len(st.Projects) > 0 {
			pid = st.Projects[d.rng.Intn(len(st.Projects))]["id"].(string)
		}
		start := d.rng.Intn(9)
		m = M{"type": "CreateBatch", "issuer": d.user(), "project_id": pid, "issuance": iss, "meta": "m0", "start": start,
			"end": start + d.rng.Intn(3), "open": d.rng.Intn(2) == 0, "origin": M{"set": false, "id": "", "src": "", "contract": ""}}
		m["wf"] = wfAmounts(m, false)
	case w < 30: // Send
		from, dn := who()
		to := d.user()
		if d.rng.Intn(8) == 0 {
			// the all-upper-case bech32 spelling of an address (often the sender's own): a
			// different string, the same account
			if d.rng.Intn(2) == 0 {
				to = from
			}
			to = "A" + to[1:]
		}
		cs := []any{}
		for i := 0; i < nlist; i++ {
			tr, _ := d.amount(d.tradable(from, dn))
			rr := "0"
			if d.rng.Intn(3) == 0 {
				rr, _ = d.amount(big.NewInt(1000000))
			}
			cs = append(cs, M{"denom": dn, "t": 0, "t_raw": tr, "r": 0, "r_raw": rr})
			if d.rng.Intn(2) == 0 {
				dn = d.denomOrBad()
			}
		}
		m = M{"type": "Send", "sender": from, "recipient": to, "credits": cs}
		m["wf"] = wfAmounts(m, false) && from != to
	case w < 38: // Retire / Cancel
		from, dn := who()
		cs := []any{}
		for i := 0; i < nlist; i++ {
			raw, _ := d.amount(d.tradable(from, dn))
			cs = append(cs, M{"denom": dn, "amt": 0, "amt_raw": raw})
		}
		typ := "Retire"
		if d.rng.Intn(2) == 0 {
			typ = "Cancel"
		}
		m = M{"type": typ, "owner": from, "credits": cs}
		m["wf"] = wfAmounts(m, true)
	case w < 52: // Sell
		from, dn := who()
		os := []any{}
		for i := 0; i < nlist; i++ {
			raw, _ := d.amount(d.tradable(from, dn))
			exp := optExp(false, 0)
			if d.rng.Intn(2) == 0 {
				exp = optExp(true, st.Now+d.rng.Intn(5)-1+1)
			}
			ad := "uregen"
			if len(st.Denoms) > 0 && d.rng.Intn(5) != 0 {
				ad = st.Denoms[d.rng.Intn(len(st.Denoms))]["bank"].(string)
			}
			os = append(os, M{"denom": dn, "qty": 0, "qty_raw": raw, "ask_denom": ad, "ask_amt": askAmt(d.rng), "dar": d.rng.Intn(2) == 0, "exp": exp})
		}
		m = M{"type": "Sell", "seller": from, "orders": os}
		m["wf"] = wfAmounts(m, true)
	case w < 60 && len(st.Orders) > 0: // UpdateSellOrders
		o := st.Orders[d.rng.Intn(len(st.Orders))]
		seller := o["seller"].(string)
		if d.rng.Intn(6) == 0 {
			seller = d.user()
		}
		us := []any{}
		for i := 0; i < nlist; i++ {
			raw, _ := d.amount(new(big.Int).Add(o["qty"].(*Amt).Micro, d.tradable(seller, d.keyD[o["bk"].(uint64)])))
			exp := optExp(false, 0)
			if d.rng.Intn(3) == 0 {
				exp = optExp(true, st.Now+d.rng.Intn(5)-1+1)
			}
			ad := "uregen"
			if len(st.Denoms) > 0 {
				ad = st.Denoms[d.rng.Intn(len(st.Denoms))]["bank"].(string)
			}
			if d.rng.Intn(2) == 0 { // keep the order's current denom, allowed or not
				for _, k := range st.Markets {
					if k["id"] == o["mid"] {
						ad = k["denom"].(string)
					}
				}
			}
			us = append(us, M{"id": o["id"], "qty": 0, "qty_raw": raw, "ask_denom": ad, "ask_amt": askAmt(d.rng), "dar": d.rng.Intn(2) == 0, "exp": exp})
		}
		m = M{"type": "UpdateSellOrders", "seller": seller, "updates": us}
		m["wf"] = wfAmounts(m, true)
	case w < 64 && len(st.Orders) > 0:
		o := st.Orders[d.rng.Intn(len(st.Orders))]
		seller := o["seller"].(string)
		if d.rng.Intn(6) == 0 {
			seller = d.user()
		}
		m = M{"type": "CancelSellOrder", "seller": seller, "id": o["id"]}
	case w < 80 && len(st.Orders) > 0: // BuyDirect
		buyer := d.user()
		os := []any{}
		for i := 0; i < nlist; i++ {
			o := st.Orders[d.rng.Intn(len(st.Orders))]
			raw, _ := d.amount(o["qty"].(*Amt).Micro)
			denom := "uregen"
			for _, k := range st.Markets {
				if k["id"] == o["mid"] {
					denom = k["denom"].(string)
				}
			}
			if d.rng.Intn(10) == 0 {
				denom = "uatom"
			}
			bid := o["ask"].(int64) + int64(d.rng.Intn(3)) - 1
			if bid < 1 {
				bid = 1
			}
			mf := M{"set": false, "denom": "", "amt": 0}
			if d.rng.Intn(2) == 0 {
				mf = M{"set": true, "denom": denom, "amt": d.rng.Intn(12)}
				if d.rng.Intn(8) == 0 { // a max fee in another denomination than the bid
					mf["denom"] = []string{"uatom", "uregen", "ufoo"}[d.rng.Intn(3)]
				}
			}
			os = append(os, M{"id": o["id"], "qty": 0, "qty_raw": raw, "bid_denom": denom, "bid_amt": bid, "dar": d.rng.Intn(2) == 0, "maxfee": mf})
		}
		m = M{"type": "BuyDirect", "buyer": buyer, "orders": os}
		m["wf"] = wfAmounts(m, true)
	case w < 90 && len(st.Baskets) > 0: // Put / Take
		k := st.Baskets[d.rng.Intn(len(st.Baskets))]
		if d.rng.Intn(2) == 0 {
			from, dn := who()
			cs := []any{}
			for i := 0; i < nlist; i++ {
				raw, _ := d.amount(d.tradable(from, dn))
				cs = append(cs, M{"denom": dn, "amt": 0, "amt_raw": raw})
				if d.rng.Intn(2) == 0 {
					dn = d.denomOrBad()
				}
			}
			m = M{"type": "Put", "owner": from, "basket_denom": k["denom"], "credits": cs}
			m["wf"] = wfAmounts(m, true)
		} else {
			// a holder of tokens, some of them
			owner, have := d.user(), big.NewInt(0)
			for _, c := range st.Coins {
				if c["d"] == k["denom"] {
					owner, have = c["a"].(string), c["n"].(*Amt).Micro
					if d.rng.Intn(2) == 0 {
						break
					}
				}
			}
			amt := new(big.Int).Set(have)
			switch d.rng.Intn(4) {
			case 0:
				amt.Quo(amt, big.NewInt(2))
			case 1:
				amt.Add(amt, big.NewInt(1))
			case 2:
				amt.SetInt64(int64(1+d.rng.Intn(3)) * 500000)
			}
			raw := amt.String()
			if d.rng.Intn(8) == 0 {
				raw = "0" + raw
			}
			m = M{"type": "Take", "owner": owner, "basket_denom": k["denom"], "amt": 0, "amt_tokens_raw": raw, "retire": d.rng.Intn(3) != 0}
		}
	case w >= 94: // metadata updates with strings at the length limit (256 BYTES), ASCII and not
		meta, okLen := d.boundaryString()
		switch k := d.rng.Intn(3); {
		case k == 0 && len(st.Batches) > 0:
			b := st.Batches[d.rng.Intn(len(st.Batches))]
			who := b["issuer"].(string)
			if d.rng.Intn(6) == 0 {
				who = d.user()
			}
			m = M{"type": "UpdateBatchMetadata", "issuer": who, "batch_denom": b["denom"], "meta": meta, "wf": okLen && meta != ""}
		case k == 1 && len(st.Projects) > 0:
			p := st.Projects[d.rng.Intn(len(st.Projects))]
			who := p["admin"].(string)
			if d.rng.Intn(6) == 0 {
				who = d.user()
			}
			m = M{"type": "UpdateProjectMetadata", "admin": who, "project_id": p["id"], "meta": meta, "wf": okLen}
		case len(st.Classes) > 0:
			c := st.Classes[d.rng.Intn(len(st.Classes))]
			who := c["admin"].(string)
			if d.rng.Intn(6) == 0 {
				who = d.user()
			}
			m = M{"type": "UpdateClassMetadata", "admin": who, "class_id": c["id"], "meta": meta, "wf": okLen}
		}
		if m == nil {
			return M{"type": "BeginBlock", "t": st.Now, "dom": "driver"}
		}
	default: // move coins / tokens between users
		if len(st.Coins) > 0 && d.rng.Intn(3) == 0 {
			c := st.Coins[d.rng.Intn(len(st.Coins))]
			if _, isTok := c["n"].(*Amt); !isTok && c["a"].(string)[0] == 'a' {
				m = M{"type": "BankSend", "from": c["a"], "to": d.user(), "denom": c["d"], "n": 1 + d.rng.Intn(3)}
			}
		}
		if m == nil {
			from, dn := who()
			raw, _ := d.amount(d.tradable(from, dn))
			to := d.user()
			m = M{"type": "Send", "sender": from, "recipient": to, "credits": []any{M{"denom": dn, "t": 0, "t_raw": raw, "r": 0, "r_raw": "0"}}}
			m["wf"] = wfAmounts(m, false) && from != to
		}
	}
	m["dom"] = "driver"
	return m
}
