package main

// The data family: concretisation of the abstract data messages, the pool of
// content hashes, and the projection of the data module's tables.

import (
	"context"
	"fmt"
	"math/rand"

	"github.com/cosmos/cosmos-sdk/baseapp"
	"github.com/cosmos/cosmos-sdk/types/query"
	gogotypes "github.com/cosmos/gogoproto/types"

	sdk "github.com/cosmos/cosmos-sdk/types"
	"golang.org/x/crypto/blake2b"

	dataapi "github.com/regen-network/regen-ledger/api/v2/regen/data/v1"
	"github.com/regen-network/regen-ledger/x/data/v3"
)

// content hash pool: abstract name -> content hash.  i1..i6 are graph hashes
// (Attest takes graph hashes only); w1, w2 are raw hashes.
func poolHash(name string) *data.ContentHash {
	fill := func(b byte, n int) []byte {
		out := make([]byte, n)
		for i := range out {
			out[i] = b + byte(i)
		}
		return out
	}
	switch name {
	case "i1", "i2", "i3", "i4", "i5", "i6":
		k := name[1] - '0'
		return &data.ContentHash{Graph: &data.ContentHash_Graph{Hash: fill(16*k, 32), DigestAlgorithm: 1 + uint32(k%2), CanonicalizationAlgorithm: 1 + uint32(k%3), MerkleTree: uint32(k % 2)}}
	case "w1":
		return &data.ContentHash{Raw: &data.ContentHash_Raw{Hash: fill(0xa0, 32), DigestAlgorithm: 1, FileExtension: "txt"}}
	case "w2":
		return &data.ContentHash{Raw: &data.ContentHash_Raw{Hash: fill(0xa0, 20), DigestAlgorithm: 2, FileExtension: "rdf"}}
	}
	panic("unknown content hash " + name)
}

var poolNames = []string{"i1", "i2", "i3", "i4", "i5", "i6", "w1", "w2"}

func poolIRI(name string) string {
	iri, err := poolHash(name).ToIRI()
	must(err)
	return iri
}

var iriToName = map[string]string{}

func init() {
	for _, n := range poolNames {
		iriToName[poolIRI(n)] = n
	}
}

// abstractIRI maps a real IRI of the pool back to its name; other IRIs stay.
func abstractIRI(iri string) string {
	if n, ok := iriToName[iri]; ok {
		return n
	}
	return iri
}

func (p *Profile) concretiseData(m M) (sdk.Msg, bool, error) {
	switch str(m, "type") {
	case "Anchor":
		return &data.MsgAnchor{Sender: AddrStr(str(m, "sender")), ContentHash: poolHash(str(m, "iri"))}, true, nil
	case "Attest":
		var hs []*data.ContentHash_Graph
		for _, n := range strList(m, "iris") {
			h := poolHash(n)
			if h.Graph == nil {
				return nil, true, fmt.Errorf("Attest needs graph hashes, got %s", n)
			}
			hs = append(hs, h.Graph)
		}
		return &data.MsgAttest{Attestor: AddrStr(str(m, "attestor")), ContentHashes: hs}, true, nil
	case "DefineResolver":
		return &data.MsgDefineResolver{Definer: AddrStr(str(m, "definer")), ResolverUrl: str(m, "url"), Public: boolean(m, "public")}, true, nil
	case "RegisterResolver":
		var hs []*data.ContentHash
		for _, n := range strList(m, "iris") {
			hs = append(hs, poolHash(n))
		}
		return &data.MsgRegisterResolver{Signer: AddrStr(str(m, "signer")), ResolverId: uint64(num(m, "rid")), ContentHashes: hs}, true, nil
	}
	return nil, false, nil
}

// DataState is the projection of the data module (spec/Data.tla).
type DataState struct {
	Now       int              `json:"now"`
	Ids       []map[string]any `json:"ids"`
	Anchors   []map[string]any `json:"anchors"`
	Attests   []map[string]any `json:"attests"`
	Resolvers []map[string]any `json:"resolvers"`
	Dres      []map[string]any `json:"dres"`
	Rseq      int64            `json:"rseq"`
	Hash      map[string][]int `json:"hash"`
	Minlen    int              `json:"minlen"`
	Hashlen   int              `json:"hashlen"`
}

func ints(b []byte) []int {
	out := make([]int, len(b))
	for i, x := range b {
		out[i] = int(x)
	}
	return out
}

func (a *App) ProjectData(ctx sdk.Context) (*DataState, *Notes) {
	n := &Notes{Malformed: []string{}, OffLattice: []string{}, Extra: []string{}, Overflow: []string{}}
	p := &projector{a: a, ctx: ctx, notes: n}
	d := &DataState{Ids: []map[string]any{}, Anchors: []map[string]any{}, Attests: []map[string]any{}, Resolvers: []map[string]any{},
		Dres: []map[string]any{}, Hash: map[string][]int{}}
	now, ok := TimeTick(ctx.BlockTime())
	if !ok {
		n.OffLattice = append(n.OffLattice, "blocktime")
	}
	d.Now = now
	var c context.Context = ctx
	ds := a.dataStore
	{
		it, err := ds.DataIDTable().List(c, dataapi.DataIDPrimaryKey{})
		must(err)
		for it.Next() {
			v, err := it.Value()
			must(err)
			d.Ids = append(d.Ids, map[string]any{"id": ints(v.Id), "iri": abstractIRI(v.Iri)})
		}
		it.Close()
	}
	{
		it, err := ds.DataAnchorTable().List(c, dataapi.DataAnchorPrimaryKey{})
		must(err)
		for it.Next() {
			v, err := it.Value()
			must(err)
			d.Anchors = append(d.Anchors, map[string]any{"id": ints(v.Id), "t": p.tick("anchor", v.Timestamp)})
		}
		it.Close()
	}
	{
		it, err := ds.DataAttestorTable().List(c, dataapi.DataAttestorPrimaryKey{})
		must(err)
		for it.Next() {
			v, err := it.Value()
			must(err)
			d.Attests = append(d.Attests, map[string]any{"id": ints(v.Id), "a": Name(v.Attestor), "t": p.tick("attestation", v.Timestamp)})
		}
		it.Close()
	}
	{
		it, err := ds.ResolverTable().List(c, dataapi.ResolverPrimaryKey{})
		must(err)
		for it.Next() {
			v, err := it.Value()
			must(err)
			mgr := ""
			if len(v.Manager) != 0 {
				mgr = Name(v.Manager)
			}
			d.Resolvers = append(d.Resolvers, map[string]any{"id": v.Id, "url": v.Url, "manager": mgr})
		}
		it.Close()
	}
	{
		it, err := ds.DataResolverTable().List(c, dataapi.DataResolverPrimaryKey{})
		must(err)
		for it.Next() {
			v, err := it.Value()
			must(err)
			d.Dres = append(d.Dres, map[string]any{"id": ints(v.Id), "rid": v.ResolverId})
		}
		it.Close()
	}
	p.a = a
	d.Rseq = p.seqOfData(&dataapi.Resolver{})
	// the ID hash function as a table over the pool
	if a.weak != nil {
		d.Minlen, d.Hashlen = a.weak.MinLen, a.weak.HashLen
		for _, nm := range poolNames {
			h := &tableHash{w: a.weak}
			h.Write([]byte(poolIRI(nm)))
			d.Hash[nm] = ints(h.Sum(nil))
		}
	} else {
		d.Minlen, d.Hashlen = 4, 8
		for _, nm := range poolNames {
			h, err := blake2b.New(8, nil)
			must(err)
			h.Write([]byte(poolIRI(nm)))
			d.Hash[nm] = ints(h.Sum(nil))
		}
	}
	return d, n
}

// ---------------------------------------------------------------- data queries (C17)

func (r *runner) dataQueryInstances() []qinst {
	conn := &baseapp.QueryServiceTestHelper{GRPCQueryRouter: r.app.ba.GRPCQueryRouter(), Ctx: r.app.Ctx()}
	dq := data.NewQueryClient(conn)
	var out []qinst
	add := func(q, arg string, fn pageFn) { out = append(out, qinst{q, arg, fn}) }
	attItems := func(as []*data.AttestationInfo) []string {
		var o []string
		for _, a := range as {
			o = append(o, abstractIRI(a.Iri)+"|"+NameOfBech32(a.Attestor))
		}
		return o
	}
	resItems := func(rs []*data.ResolverInfo) []string {
		var o []string
		for _, x := range rs {
			o = append(o, fmt.Sprint(x.Id))
		}
		return o
	}
	for _, a := range []string{"a1", "a2", "a3"} {
		a := a
		add("AttestationsByAttestor", a, func(c context.Context, pr *query.PageRequest) ([]string, *query.PageResponse, error) {
			res, err := dq.AttestationsByAttestor(c, &data.QueryAttestationsByAttestorRequest{Attestor: AddrStr(a), Pagination: pr})
			if err != nil {
				return nil, nil, err
			}
			return attItems(res.Attestations), res.Pagination, nil
		})
	}
	for _, n := range poolNames {
		n := n
		add("AttestationsByIRI", n, func(c context.Context, pr *query.PageRequest) ([]string, *query.PageResponse, error) {
			res, err := dq.AttestationsByIRI(c, &data.QueryAttestationsByIRIRequest{Iri: poolIRI(n), Pagination: pr})
			if err != nil {
				return nil, nil, err
			}
			return attItems(res.Attestations), res.Pagination, nil
		})
		add("AttestationsByHash", n, func(c context.Context, pr *query.PageRequest) ([]string, *query.PageResponse, error) {
			res, err := dq.AttestationsByHash(c, &data.QueryAttestationsByHashRequest{ContentHash: poolHash(n), Pagination: pr})
			if err != nil {
				return nil, nil, err
			}
			return attItems(res.Attestations), res.Pagination, nil
		})
		add("ResolversByIRI", n, func(c context.Context, pr *query.PageRequest) ([]string, *query.PageResponse, error) {
			res, err := dq.ResolversByIRI(c, &data.QueryResolversByIRIRequest{Iri: poolIRI(n), Pagination: pr})
			if err != nil {
				return nil, nil, err
			}
			return resItems(res.Resolvers), res.Pagination, nil
		})
		add("ResolversByHash", n, func(c context.Context, pr *query.PageRequest) ([]string, *query.PageResponse, error) {
			res, err := dq.ResolversByHash(c, &data.QueryResolversByHashRequest{ContentHash: poolHash(n), Pagination: pr})
			if err != nil {
				return nil, nil, err
			}
			return resItems(res.Resolvers), res.Pagination, nil
		})
	}
	for _, u := range []string{"https://r1", "https://r2", "https://zz", "urn:regen:r1"} {
		u := u
		add("ResolversByURL", u, func(c context.Context, pr *query.PageRequest) ([]string, *query.PageResponse, error) {
			res, err := dq.ResolversByURL(c, &data.QueryResolversByURLRequest{Url: u, Pagination: pr})
			if err != nil {
				return nil, nil, err
			}
			return resItems(res.Resolvers), res.Pagination, nil
		})
	}
	return out
}

func (r *runner) dataQueries(ob M, budget int, ds *DataState) {
	rng := rand.New(rand.NewSource(r.b.Seed*131 + int64(len(r.lines))))
	insts := r.dataQueryInstances()
	ctx := context.Background()
	results := []any{}
	limits := []int{1, 2, 3, 100}
	for k := 0; k < budget && len(insts) > 0; k++ {
		in := insts[rng.Intn(len(insts))]
		mode := []string{"key", "offset", "key", "offset", "nil", "offset0", "keynolimit", "reverse"}[rng.Intn(8)]
		results = append(results, walkPages(ctx, in, mode, limits[rng.Intn(len(limits))]))
	}
	ob["lists"] = results
	// single-entity queries
	conn := &baseapp.QueryServiceTestHelper{GRPCQueryRouter: r.app.ba.GRPCQueryRouter(), Ctx: r.app.Ctx()}
	dq := data.NewQueryClient(conn)
	singles := []any{}
	for _, x := range ds.Ids {
		n := x["iri"].(string)
		if _, ok := iriToName[poolIRISafe(n)]; !ok {
			continue
		}
		for _, by := range []string{"AnchorByIRI", "AnchorByHash"} {
			var a *data.AnchorInfo
			var err error
			if by == "AnchorByIRI" {
				var res *data.QueryAnchorByIRIResponse
				res, err = dq.AnchorByIRI(ctx, &data.QueryAnchorByIRIRequest{Iri: poolIRI(n)})
				if err == nil {
					a = res.Anchor
				}
			} else {
				var res *data.QueryAnchorByHashResponse
				res, err = dq.AnchorByHash(ctx, &data.QueryAnchorByHashRequest{ContentHash: poolHash(n)})
				if err == nil {
					a = res.Anchor
				}
			}
			if err != nil || a == nil {
				singles = append(singles, M{"q": by, "iri": n, "err": true, "riri": "", "t": 0, "same_hash": false})
				continue
			}
			t := -999
			if tm, e := gogotypes.TimestampFromProto(a.Timestamp); e == nil {
				t, _ = TimeTick(tm)
			}
			singles = append(singles, M{"q": by, "iri": n, "err": false, "riri": abstractIRI(a.Iri), "t": t,
				"same_hash": a.ContentHash != nil && a.ContentHash.String() == poolHash(n).String()})
		}
	}
	for _, x := range ds.Resolvers {
		res, err := dq.Resolver(ctx, &data.QueryResolverRequest{Id: x["id"].(uint64)})
		if err != nil {
			singles = append(singles, M{"q": "Resolver", "id": x["id"], "err": true, "url": "", "manager": ""})
			continue
		}
		mgr := NameOfBech32(res.Resolver.Manager)
		if res.Resolver.Manager == "" || x["manager"] == "" && len(res.Resolver.Manager) > 0 && mgr != "" {
			// a public resolver has no manager; the query renders the empty address
			if x["manager"] == "" {
				mgr = ""
			}
		}
		singles = append(singles, M{"q": "Resolver", "id": x["id"], "err": false, "url": res.Resolver.Url, "manager": mgr})
	}
	// the conversion queries on every pool entry (anchored or not): IRI -> hash is the pool's
	// content hash, hash -> IRI is the pool's IRI
	for _, n := range []string{"i1", "i2", "i3", "i4", "i5", "i6"} {
		r1, e1 := dq.ConvertIRIToHash(ctx, &data.ConvertIRIToHashRequest{Iri: poolIRI(n)})
		r2, e2 := dq.ConvertHashToIRI(ctx, &data.ConvertHashToIRIRequest{ContentHash: poolHash(n)})
		m := M{"q": "Convert", "iri": n, "err": e1 != nil || e2 != nil, "same_hash": false, "riri": ""}
		if e1 == nil && e2 == nil {
			m["same_hash"] = r1.ContentHash != nil && r1.ContentHash.String() == poolHash(n).String()
			m["riri"] = abstractIRI(r2.Iri)
		}
		singles = append(singles, m)
	}
	ob["singles"] = singles
}

func poolIRISafe(name string) string {
	for _, n := range poolNames {
		if n == name {
			return poolIRI(n)
		}
	}
	return ""
}
