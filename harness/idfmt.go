package main

// idfmt mode (C14): the chain's own identifier validators and parsers are executed on
// candidate strings given as sequences of characters; the results are validated by TLC
// against the functional specification spec/IdFormat.tla (TraceIdFormat.tla).

import (
	"bufio"
	"encoding/json"
	"fmt"
	"os"
	"strings"

	ecobase "github.com/regen-network/regen-ledger/x/ecocredit/v3/base"
)

func idfmtCLI(in, out string) int {
	f, err := os.Open(in)
	if err != nil {
		fmt.Fprintln(os.Stderr, err)
		return 2
	}
	defer f.Close()
	o, err := os.Create(out)
	if err != nil {
		fmt.Fprintln(os.Stderr, err)
		return 2
	}
	defer o.Close()
	w := bufio.NewWriterSize(o, 1<<20)
	defer w.Flush()
	sc := bufio.NewScanner(f)
	sc.Buffer(make([]byte, 1<<20), 1<<26)
	for sc.Scan() {
		var c struct {
			Chars []string `json:"chars"`
		}
		if err := json.Unmarshal(sc.Bytes(), &c); err != nil {
			fmt.Fprintln(os.Stderr, err)
			return 2
		}
		if c.Chars == nil {
			c.Chars = []string{}
		}
		s := strings.Join(c.Chars, "")
		r := map[string]any{"chars": c.Chars, "s": s, "panic": false}
		func() {
			defer func() {
				if p := recover(); p != nil {
					r["panic"] = true
					for _, k := range []string{"abbrev_ok", "class_ok", "project_ok", "batch_ok"} {
						if _, ok := r[k]; !ok {
							r[k] = false
						}
					}
				}
			}()
			r["abbrev_ok"] = ecobase.ValidateCreditTypeAbbreviation(s) == nil
			r["class_ok"] = ecobase.ValidateClassID(s) == nil
			r["project_ok"] = ecobase.ValidateProjectID(s) == nil
			r["batch_ok"] = ecobase.ValidateBatchDenom(s) == nil
			r["abbrev_of_class"] = ecobase.GetCreditTypeAbbrevFromClassID(s)
			r["class_of_project"] = ecobase.GetClassIDFromProjectID(s)
			r["class_of_batch"] = ecobase.GetClassIDFromBatchDenom(s)
			r["project_of_batch"] = ecobase.GetProjectIDFromBatchDenom(s)
		}()
		for _, k := range []string{"abbrev_of_class", "class_of_project", "class_of_batch", "project_of_batch"} {
			if _, ok := r[k]; !ok {
				r[k] = ""
			}
		}
		bz, _ := json.Marshal(r)
		w.Write(bz)
		w.WriteByte('\n')
	}
	return 0
}
