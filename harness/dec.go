package main

// dec mode (C19): the decimal arithmetic of types/math is executed on operand strings given
// as sequences of characters; TLC validates the results against the functional specification
// spec/Dec.tla (TraceDec.tla), which computes with digit sequences.

import (
	"bufio"
	"encoding/json"
	"fmt"
	"os"
	"strings"

	regenmath "github.com/regen-network/regen-ledger/types/v2/math"
)

func chars(s string) []string {
	out := []string{}
	for _, r := range s {
		out = append(out, string(r))
	}
	return out
}

func decCLI(in, out string) int {
	f, err := os.Open(in)
	if err != nil {
		fmt.Fprintln(os.Stderr, err)
		return 2
	}
	defer f.Close()
	o, err := os.Create(out)
	if err != nil {
		fmt.Fprintln(os.Stderr, err)
		return 2
	}
	defer o.Close()
	w := bufio.NewWriterSize(o, 1<<20)
	defer w.Flush()
	sc := bufio.NewScanner(f)
	sc.Buffer(make([]byte, 1<<20), 1<<26)
	for sc.Scan() {
		var c struct {
			Op string   `json:"op"`
			A  []string `json:"a"`
			B  []string `json:"b"`
		}
		if err := json.Unmarshal(sc.Bytes(), &c); err != nil {
			fmt.Fprintln(os.Stderr, err)
			return 2
		}
		if c.A == nil {
			c.A = []string{}
		}
		if c.B == nil {
			c.B = []string{}
		}
		as, bs := strings.Join(c.A, ""), strings.Join(c.B, "")
		r := map[string]any{"op": c.Op, "a": c.A, "b": c.B, "a_ok": false, "b_ok": false, "res_ok": false, "res": []string{},
			"cmp": 0, "unchanged": true, "plain": true, "panic": false}
		func() {
			defer func() {
				if p := recover(); p != nil {
					r["panic"] = true
				}
			}()
			x, ex := regenmath.NewDecFromString(as)
			y, ey := regenmath.NewDecFromString(bs)
			r["a_ok"], r["b_ok"] = ex == nil, ey == nil
			if ex != nil || (ey != nil && c.Op != "parse" && c.Op != "trim") {
				return
			}
			xs0 := x.String()
			ys0 := ""
			if ey == nil {
				ys0 = y.String()
			}
			var z regenmath.Dec
			var err error
			switch c.Op {
			case "parse":
				z = x
			case "add":
				z, err = x.Add(y)
			case "sub":
				z, err = x.Sub(y)
			case "mul":
				z, err = x.Mul(y)
			case "mulexact":
				z, err = x.MulExact(y)
			case "quo":
				z, err = x.Quo(y)
			case "quoexact":
				z, err = x.QuoExact(y)
			case "quoint":
				z, err = x.QuoInteger(y)
			case "rem":
				z, err = x.Rem(y)
			case "safesub":
				z, err = regenmath.SafeSubBalance(x, y)
			case "cmp":
				r["cmp"] = x.Cmp(y)
				z = x
			case "trim":
				i := x.SdkIntTrim()
				r["res_ok"] = true
				r["res"] = chars(i.String())
			}
			if c.Op != "trim" {
				r["res_ok"] = err == nil
				if err == nil {
					s := z.String()
					r["res"] = chars(s)
					r["plain"] = !strings.ContainsAny(s, "eE")
				}
			}
			r["unchanged"] = x.String() == xs0 && (ey != nil || y.String() == ys0)
		}()
		bz, _ := json.Marshal(r)
		w.Write(bz)
		w.WriteByte('\n')
	}
	return 0
}
